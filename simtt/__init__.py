"""simtt -- deterministic simulation with fault injection for PGelss/scikit_tt.

Import order matters: `simtt.env` must be imported before NumPy so that the
BLAS thread count is pinned (bit-reproducibility), and it decides which copy of
scikit_tt is under test (SIMTT_REPO, default /repo).
"""
