"""Command line: ./check <property> [--tier quick|thorough] | replay <file> | selftest-determinism | ..."""
import os
import sys
import json
import argparse


def _reexec_with_hashseed():
    # PYTHONHASHSEED must be fixed before the interpreter starts; re-exec once if it is not.
    if os.environ.get("PYTHONHASHSEED") is None:
        e = dict(os.environ)
        e["PYTHONHASHSEED"] = "0"
        os.execve(sys.executable, [sys.executable, "-m", "simtt.cli"] + sys.argv[1:], e)


def main(argv=None):
    _reexec_with_hashseed()
    from . import env  # noqa: F401  (first: pins BLAS threads)
    import faulthandler, signal
    try:
        faulthandler.register(signal.SIGUSR1, all_threads=True)   # kill -USR1 <pid> dumps every thread's stack
    except (AttributeError, ValueError):
        pass
    import warnings
    warnings.filterwarnings("ignore", category=SyntaxWarning)
    argv = sys.argv[1:] if argv is None else argv
    if not argv:
        print("usage: check <C03|C04|C05|C06|C20> [--tier quick|thorough] | replay <file> | selftest-determinism | selftest-sensitivity")
        return 2
    cmd = argv[0]
    if cmd == "replay":
        return cmd_replay(argv[1:])
    if cmd == "selftest-determinism":
        from . import selftest
        return selftest.determinism(argv[1:])
    if cmd == "selftest-sensitivity":
        from . import selftest
        return selftest.sensitivity(argv[1:])
    if cmd == "digests":
        from . import selftest
        return selftest.digests_cmd(argv[1:])
    if cmd == "setup":
        return cmd_setup()
    ap = argparse.ArgumentParser()
    ap.add_argument("prop")
    ap.add_argument("--tier", default=os.environ.get("VERIF_TIER", "quick"), choices=("quick", "thorough"))
    ap.add_argument("--seed", type=int, default=int(os.environ.get("VERIF_SEED", "0")))
    ap.add_argument("--workers", type=int, default=None)
    ap.add_argument("--runs", type=str, default=None, help="override: nofault,fault")
    ap.add_argument("--wall", type=int, default=None)
    a = ap.parse_args(argv)
    from . import runner
    if a.prop not in runner.MACHINE_OF:
        print("unknown or not-applicable property %s" % a.prop)
        return 2
    runs = tuple(int(x) for x in a.runs.split(",")) if a.runs else None
    return runner.run_check(a.prop, a.tier, a.seed, workers=a.workers, runs_override=runs, wall_override=a.wall)


def cmd_setup():
    from . import env
    ttm = env.import_sut()
    import scikit_tt.quantum_computation  # noqa  (needs the matplotlib stand-in)
    import scikit_tt.solvers.ode, scikit_tt.solvers.sle, scikit_tt.solvers.evp  # noqa
    print("setup ok: scikit_tt from %s, %s, stubs=%s" % (os.path.dirname(ttm.__file__), env.versions(), env.STUBBED))
    return 0


def cmd_replay(argv):
    from . import env
    from . import runner
    ap = argparse.ArgumentParser()
    ap.add_argument("path")
    ap.add_argument("--json", action="store_true")
    ap.add_argument("--events", action="store_true")
    a = ap.parse_args(argv)
    with open(a.path) as f:
        body = json.load(f)
    prop = body["property"]
    m = runner.machine(prop)
    r = m.replay_records(prop, body["records"], want_events=a.events)
    if a.events:
        for e in r.get("events", []):
            print("EVENT", json.dumps(e, default=repr))
    v = r["viol"]
    rel = os.path.relpath(os.path.abspath(a.path), env.VERIF)
    if a.json:
        print("REPLAY-JSON " + json.dumps({"signature": v["signature"] if v else None, "digest": r["digest"],
                                           "property": v["property"] if v else None}))
    if v is not None and v["property"] == prop:
        print("VIOLATION property=%s replay=%s" % (prop, rel))
        print("  signature=%s clause=%s step=%s digest=%s" % (v["signature"], v["clause"], v["step"], r["digest"]))
        print("  detail=%s" % json.dumps(v["detail"], default=repr)[:1000])
        return 1
    print("REPLAY-CLEAN property=%s replay=%s digest=%s" % (prop, rel, r["digest"]))
    return 0


if __name__ == "__main__":
    sys.exit(main())
