"""Seeds, streams, event log and digests.

One integer decides everything: VERIF_SEED -> run seed r_i = H(VERIF_SEED, property, i);
independent sub-streams are derived by hashing (r_i, purpose).  Logging never draws
from a stream and never reads a real clock.
"""
import hashlib
import json
import random

from . import env  # noqa: F401  (pins BLAS threads before numpy)
import numpy as np


def H(*parts):
    """Stable 63-bit hash of a tuple of ints/strings (independent of PYTHONHASHSEED)."""
    h = hashlib.sha256()
    for p in parts:
        h.update(repr(p).encode())
        h.update(b"\x00")
    return int.from_bytes(h.digest()[:8], "big") >> 1


def run_seed(verif_seed, prop, index):
    return H("run", int(verif_seed), str(prop), int(index))


class Streams(object):
    """Independent, purpose-keyed PRNG streams derived from one run seed."""

    def __init__(self, seed):
        self.seed = int(seed)
        self._py = {}
        self._np = {}

    def py(self, purpose):
        r = self._py.get(purpose)
        if r is None:
            r = self._py[purpose] = random.Random(H(self.seed, "py", purpose))
        return r

    def np(self, purpose):
        g = self._np.get(purpose)
        if g is None:
            g = self._np[purpose] = np.random.Generator(np.random.PCG64(H(self.seed, "np", purpose)))
        return g


def np_gen(sub_seed):
    return np.random.Generator(np.random.PCG64(int(sub_seed) & ((1 << 63) - 1)))


def arr_digest(a):
    """Bit-exact digest of an ndarray (shape, dtype, C-ordered bytes)."""
    a = np.ascontiguousarray(a)
    h = hashlib.sha256()
    h.update(str(a.shape).encode())
    h.update(str(a.dtype).encode())
    h.update(a.tobytes())
    return h.hexdigest()[:16]


class EventLog(object):
    """Append-only event log; the digest is the identity of an execution."""

    def __init__(self, keep=True):
        self.events = [] if keep else None
        self._h = hashlib.sha256()
        self.n = 0

    def add(self, *ev):
        s = json.dumps(ev, sort_keys=True, default=_jd)
        self._h.update(s.encode())
        self._h.update(b"\n")
        self.n += 1
        if self.events is not None:
            self.events.append(ev)

    def digest(self):
        return self._h.hexdigest()[:24]


def _jd(o):
    if isinstance(o, (np.integer,)):
        return int(o)
    if isinstance(o, (np.floating,)):
        return float(o)
    if isinstance(o, (np.bool_,)):
        return bool(o)
    if isinstance(o, complex):
        return [o.real, o.imag]
    if isinstance(o, np.ndarray):
        return o.tolist()
    if isinstance(o, (set, frozenset)):
        return sorted(o)
    if isinstance(o, float) and o != o:
        return "nan"
    return repr(o)


def jdump(obj, **kw):
    return json.dumps(obj, default=_jd, **kw)


class Violation(Exception):
    """Raised by an oracle.  `signature` is structural (DESIGN 2.1), `prop` the property id."""

    def __init__(self, prop, signature, clause, detail, step=None):
        Exception.__init__(self, "%s %s %s" % (prop, signature, clause))
        self.prop = prop
        self.signature = signature
        self.clause = clause
        self.detail = detail
        self.step = step

    def as_dict(self):
        return {"property": self.prop, "signature": self.signature, "clause": self.clause,
                "detail": self.detail, "step": self.step}
