"""Process environment for every simulated run.

* pins BLAS to one thread *before* NumPy is imported (the bundled OpenBLAS is
  multi-threaded; single-threaded it is bit-reproducible across processes),
* selects the copy of scikit_tt under test: SIMTT_REPO (default /repo); the
  working tree is imported directly, nothing is built or cached,
* installs the matplotlib stand-in (S6) so scikit_tt.quantum_computation imports,
* captures references to the *real* NumPy/SciPy entry points for the oracle.
"""
import os
import sys
import types

for _v in ("OPENBLAS_NUM_THREADS", "OMP_NUM_THREADS", "MKL_NUM_THREADS"):
    os.environ[_v] = "1"
os.environ.setdefault("SCIKIT_TT_VERIF", "1")

REPO = os.path.abspath(os.environ.get("SIMTT_REPO", "/repo"))
VERIF = os.path.dirname(os.path.dirname(os.path.abspath(__file__)))

if "numpy" in sys.modules and os.environ.get("SIMTT_ALLOW_PRELOADED_NUMPY") != "1":
    # numpy imported before us: thread pinning may have been missed
    import numpy as _np  # noqa
    # we still pinned the env; OpenBLAS reads it at load time, so be loud
    sys.stderr.write("simtt.env: numpy was imported before simtt.env\n")

sys.dont_write_bytecode = True
# the repo under test goes first so that a develop-install elsewhere cannot shadow it
sys.path.insert(0, REPO)

import numpy as np  # noqa: E402
import scipy  # noqa: E402
import scipy.linalg  # noqa: E402
import scipy.sparse.linalg  # noqa: E402

STUBBED = []


def _stub_matplotlib():
    try:
        import matplotlib.pyplot  # noqa
        return
    except Exception:
        pass
    m = types.ModuleType("matplotlib")
    p = types.ModuleType("matplotlib.pyplot")

    def _nope(*a, **k):
        raise RuntimeError("matplotlib stub: plotting is not part of the simulation")

    p.__getattr__ = lambda name: _nope
    m.pyplot = p
    sys.modules["matplotlib"] = m
    sys.modules["matplotlib.pyplot"] = p
    STUBBED.append("matplotlib")


_stub_matplotlib()

# real entry points, captured before any seam is installed -- the oracle uses only these
REAL = types.SimpleNamespace(
    sp_svd=scipy.linalg.svd,
    np_svd=np.linalg.svd,
    np_pinv=np.linalg.pinv,
    np_norm=np.linalg.norm,
    einsum=np.einsum,
    tensordot=np.tensordot,
    rand=np.random.rand,
    choice=np.random.choice,
)


def import_sut():
    """Import scikit_tt from REPO and verify that it really came from there."""
    import scikit_tt
    import scikit_tt.tensor_train as ttm
    path = os.path.abspath(scikit_tt.__file__)
    if not path.startswith(REPO + os.sep):
        raise RuntimeError("scikit_tt imported from %s, expected below %s" % (path, REPO))
    return ttm


def preload_sut():
    """Import every scikit_tt module once (module top-levels only; no API call), so that forked children of this
    process do not pay the import cost and still start from a state in which the library has never *run*."""
    import importlib
    import_sut()
    for name in ("scikit_tt.utils", "scikit_tt.solvers.sle", "scikit_tt.solvers.evp", "scikit_tt.solvers.ode",
                 "scikit_tt.data_driven.transform", "scikit_tt.data_driven.regression", "scikit_tt.data_driven.tdmd",
                 "scikit_tt.data_driven.tedmd", "scikit_tt.data_driven.tgedmd", "scikit_tt.data_driven.ulam",
                 "scikit_tt.slim", "scikit_tt.models", "scikit_tt.quantum_computation"):
        try:
            importlib.import_module(name)
        except Exception as e:  # a tree under test may have broken an import; the run that needs it will say so
            sys.stderr.write("simtt.env: could not preload %s: %r\n" % (name, e))


def repo_head():
    import subprocess
    try:
        return subprocess.run(["git", "-C", REPO, "rev-parse", "HEAD"], capture_output=True,
                              text=True, timeout=20).stdout.strip()
    except Exception:
        return "unknown"


def versions():
    return {"python": sys.version.split()[0], "numpy": np.__version__, "scipy": scipy.__version__}
