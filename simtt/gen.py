"""Operand generators.  A spec is a JSON-able dict; building from a spec is a pure function
of the spec (its own sub_seed), so replay files are self-contained."""
from . import env  # noqa: F401
import numpy as np

from .core import np_gen

LAYOUTS = ("C", "F", "moveaxis", "moveaxis_r", "T", "slice", "neg")
VALS = ("normal", "deficient", "decay", "ints", "normal", "normal", "iso")


def _values(g, shape, cplx, vals):
    if vals == "ints":
        a = g.integers(-3, 4, size=shape).astype(float)
        if cplx:
            a = a + 1j * g.integers(-3, 4, size=shape)
        return a
    a = g.standard_normal(shape)
    if cplx:
        a = a + 1j * g.standard_normal(shape)
    return a


def make_core(g, r, m, n, r2, cplx=False, vals="normal", layout="C"):
    """A core of logical shape (r, m, n, r2) with the requested value class and memory layout."""
    shape = (r, m, n, r2)
    if vals == "iso":
        # an exactly (up to rounding) isometric core: all singular values of its unfoldings are tied at 1
        z = g.standard_normal((max(r * m * n, r2), max(r * m * n, r2)))
        if cplx:
            z = z + 1j * g.standard_normal(z.shape)
        q, _ = np.linalg.qr(z)
        return relayout(np.ascontiguousarray(q[:r * m * n, :r2].reshape(shape)), layout)
    a = _values(g, shape, cplx, "normal" if vals in ("deficient", "decay") else vals)
    if vals == "deficient" and r2 >= 2:
        # right unfolding of rank < r2: make the last bond index a copy/combination of the others
        k = int(g.integers(1, r2))
        mix = g.standard_normal((k, r2))
        a = np.tensordot(a[..., :k], mix, axes=([3], [0]))
    elif vals == "deficient" and r >= 2:
        k = int(g.integers(1, r))
        mix = g.standard_normal((r, k))
        a = np.tensordot(mix, a[:k], axes=([1], [0]))
    elif vals == "decay":
        if r2 >= 2:
            a = a * (10.0 ** (-1.5 * np.arange(r2)))[None, None, None, :]
        if r >= 2:
            a = a * (10.0 ** (-1.5 * np.arange(r)))[:, None, None, None]
    a = np.ascontiguousarray(a)
    return relayout(a, layout)


def relayout(a, layout):
    """Same values, different strides.  Every variant is something NumPy code legitimately produces."""
    r, m, n, r2 = a.shape
    if layout == "C":
        return np.ascontiguousarray(a)
    if layout == "F":
        return np.asfortranarray(a)
    if layout == "moveaxis":      # reshape(r*m*n, r2) is an F-contiguous *view*
        x = np.ascontiguousarray(np.moveaxis(a, -1, 0))
        return np.moveaxis(x, 0, -1)
    if layout == "moveaxis_r":    # reshape(r, m*n*r2) is an F-contiguous *view*
        x = np.ascontiguousarray(np.moveaxis(a, 0, -1))
        return np.moveaxis(x, -1, 0)
    if layout == "T":             # what TT.__matmul__ hands out: (r, r2, m, n).transpose(0, 2, 3, 1)
        x = np.ascontiguousarray(a.transpose(0, 3, 1, 2))
        return x.transpose(0, 2, 3, 1)
    if layout == "slice":         # a window into a larger parent buffer
        p = np.zeros((r, m, n, r2 + 1), dtype=a.dtype)
        p[..., :r2] = a
        return p[..., :r2]
    if layout == "neg":           # negative stride view
        x = np.ascontiguousarray(a[::-1])
        return x[::-1]
    raise ValueError("unknown layout %r" % (layout,))


def build_cores(spec):
    g = np_gen(spec["sub_seed"])
    rows, cols, ranks = spec["rows"], spec["cols"], spec["ranks"]
    dt = spec.get("dtype", "f8")
    cplx_per_core = [(x == "c16") for x in dt] if isinstance(dt, list) else [dt == "c16"] * len(rows)
    vals = spec.get("vals", "normal")
    lay = spec.get("layout") or ["C"] * len(rows)
    if isinstance(vals, str):
        vals = [vals] * len(rows)
    cores = []
    for i in range(len(rows)):
        c = make_core(g, ranks[i], rows[i], cols[i], ranks[i + 1], cplx_per_core[i], vals[i], "C")
        if spec.get("neardiag") and rows[i] == cols[i]:
            # identity-dominant operator cores: generically well-conditioned micro systems for the solvers
            c = 0.2 * c
            c[0, :, :, 0] += np.eye(rows[i])
        if spec.get("int_storage") and vals[i] == "ints" and not cplx_per_core[i] and not spec.get("neardiag"):
            c = c.astype(np.int64)      # integer-valued cores handed over as int64 arrays (e.g. 0/1 gate tensors)
        if spec.get("single"):
            c = c.astype(np.complex64 if np.iscomplexobj(c) else np.float32)   # single-precision storage
        cores.append(relayout(c, lay[i]))
    scale = spec.get("scale")
    if scale:
        cores[0] = cores[0] * (np.float32(scale) if spec.get("single") else scale)
    return cores


def build_tt(ttm, spec):
    return ttm.TT(build_cores(spec))


# ------------------------------------------------------------------ random specs

def rand_ranks(rnd, rows, cols, max_rank=6, p_one=0.4, over=0.15):
    """Rank vector with boundary ranks 1, P(rank=1) ~ p_one, occasionally over-parameterised."""
    d = len(rows)
    ranks = [1]
    for i in range(1, d):
        if rnd.random() < p_one:
            ranks.append(1)
            continue
        left = int(np.prod([rows[j] * cols[j] for j in range(i)]))
        right = int(np.prod([rows[j] * cols[j] for j in range(i, d)]))
        cap = max(1, min(left, right))
        if rnd.random() < over:
            r = min(max_rank, cap + rnd.randint(1, 2))
        else:
            r = rnd.randint(1, max(1, min(max_rank, cap)))
        ranks.append(r)
    ranks.append(1)
    return ranks


def rand_dims(rnd, order, kind, sizes=(1, 2, 3), p_size1=None):
    def pick():
        return rnd.choice(sizes)
    rows = [pick() for _ in range(order)]
    if kind == "vector":
        cols = [1] * order
    elif kind == "square":
        cols = list(rows)
    else:
        cols = [pick() for _ in range(order)]
    return rows, cols


def rand_spec(rnd, order=None, kind=None, max_order=4, max_rank=6, layouts=("C",), cplx_p=0.35,
              vals=None, sizes=(1, 2, 3)):
    if order is None:
        order = rnd.randint(1, max_order)
    if kind is None:
        kind = rnd.choice(("vector", "vector", "square", "general"))
    rows, cols = rand_dims(rnd, order, kind, sizes)
    ranks = rand_ranks(rnd, rows, cols, max_rank)
    spec = {
        "rows": rows, "cols": cols, "ranks": ranks,
        # all real, all complex, or (15 %) a mixture of real and complex cores in one train
        "dtype": ([rnd.choice(("f8", "c16")) for _ in range(order)] if rnd.random() < 0.15 and 0.0 < cplx_p
                  else ("c16" if rnd.random() < cplx_p else "f8")),
        "layout": [rnd.choice(layouts) for _ in range(order)],
        "vals": [rnd.choice(VALS) if vals is None else vals for _ in range(order)],
        "int_storage": rnd.random() < 0.2,
        "sub_seed": rnd.getrandbits(48),
    }
    u = rnd.random()
    if u < 0.06:
        spec["scale"] = rnd.choice((1e60, 1e-60, 1e25, 1e-25))     # very large / very small overall magnitude
    elif u < 0.12:
        spec["single"] = True                                       # float32 / complex64 cores
    return spec
