"""Machine C -- C20: the Born sampler behind the RNG seam (DESIGN section 4).

The simulator owns the uniform variates the sampler consumes (numpy.random.rand is a seam) and
supplies a matplotlib stand-in so that the module can be imported at all.  For fixed variates the
output must be exactly the inverse-CDF samples predicted from the dense state.
"""
import math

from . import env
import numpy as np

from .core import Streams, EventLog, Violation, arr_digest, H, np_gen
from .seams import Seams
from . import model as M

GUARD = 1e-9   # variates closer than this to a decision boundary are never used (tie rule on a null set)


def right_orthonormalise(cores):
    """Own (oracle-side) right-orthonormalisation + normalisation via NumPy QR; cores are (r,2,1,r').
    Rank-1 bonds are normalised by a real factor only, so real product cores stay exactly real."""
    cores = [np.array(c, dtype=complex) for c in cores]
    d = len(cores)
    for i in range(d - 1, 0, -1):
        r, m, n, r2 = cores[i].shape
        a = cores[i].reshape(r, m * n * r2)
        if r == 1:
            nr = np.linalg.norm(a)
            if nr > 0:
                cores[i] = cores[i] / nr
                cores[i - 1] = cores[i - 1] * nr
                continue
        q, rr = np.linalg.qr(a.conj().T)       # a^H = q rr  ->  a = rr^H q^H
        k = q.shape[1]
        cores[i] = q.conj().T.reshape(k, m, n, r2)
        cores[i - 1] = np.tensordot(cores[i - 1], rr.conj().T, axes=([3], [0]))
    nrm = np.linalg.norm(cores[0].ravel())
    cores[0] = cores[0] / nrm
    return cores


def build_state(spec):
    g = np_gen(spec["sub_seed"])
    n = spec["n"]
    kind = spec["kind"]
    if kind == "random":
        ranks = spec["ranks"]
        cores = [g.standard_normal((ranks[i], 2, 1, ranks[i + 1])) + 1j * g.standard_normal((ranks[i], 2, 1, ranks[i + 1]))
                 for i in range(n)]
    elif kind == "product":
        cores = []
        for i in range(n):
            c = g.standard_normal((1, 2, 1, 1)) + 1j * g.standard_normal((1, 2, 1, 1))
            cores.append(c)
    elif kind == "mixed_product":   # some sites carry real amplitudes, some complex ones
        cores = []
        for i in range(n):
            c = g.standard_normal((1, 2, 1, 1)).astype(complex)
            if g.random() < 0.5:
                c = c + 1j * g.standard_normal((1, 2, 1, 1))
            cores.append(c)
    elif kind == "basis":      # deterministic outcome: every conditional probability is exactly 0 or 1
        bits = g.integers(0, 2, size=n)
        cores = []
        for i in range(n):
            c = np.zeros((1, 2, 1, 1), dtype=complex)
            c[0, bits[i], 0, 0] = np.exp(1j * g.uniform(0, 2 * np.pi))
            cores.append(c)
    elif kind in ("ghz", "ghz_eq"):        # a|0..0> + b|1..1>   (ghz_eq: a = b, i.e. amplitudes exactly +-1/sqrt(2))
        a, b = g.standard_normal(2) + 1j * g.standard_normal(2)
        if kind == "ghz_eq":
            a, b = 1.0, g.choice([1.0, -1.0])
        cores = []
        for i in range(n):
            rl = 1 if i == 0 else 2
            rr = 1 if i == n - 1 else 2
            c = np.zeros((rl, 2, 1, rr), dtype=complex)
            for bit in (0, 1):
                c[0 if rl == 1 else bit, bit, 0, 0 if rr == 1 else bit] = 1.0
            cores.append(c)
        if n == 1:
            cores[0][0, 0, 0, 0] = a
            cores[0][0, 1, 0, 0] = b
        else:
            cores[0][0, 0, 0, 0] = a
            cores[0][0, 1, 0, 1] = b
    elif kind == "w":          # equal-phase-free superposition of single excitations, random weights
        w = g.standard_normal(n) + 1j * g.standard_normal(n)
        cores = []
        for i in range(n):
            rl = 1 if i == 0 else 2
            rr = 1 if i == n - 1 else 2
            c = np.zeros((2, 2, 1, 2), dtype=complex)
            c[0, 0, 0, 0] = 1.0
            c[1, 0, 0, 1] = 1.0
            c[0, 1, 0, 1] = w[i]
            c = c[:rl] if i else c[:1]
            c = c[..., -rr:] if i == n - 1 else c
            cores.append(np.ascontiguousarray(c))
        if n == 1:
            cores[0] = np.zeros((1, 2, 1, 1), dtype=complex)
            cores[0][0, 1, 0, 0] = 1.0
    elif kind == "skewed":     # outcome 1 is unlikely on every site (conditional probability ~ eps^2): together with
        # variates that force it, the joint probability of the prefix drawn so far falls far below machine epsilon
        ranks = spec["ranks"]
        eps = float(spec.get("eps", 0.1))
        cores = []
        for i in range(n):
            c = np.zeros((ranks[i], 2, 1, ranks[i + 1]), dtype=complex)
            c[:, 0, 0, :] = np.eye(ranks[i], ranks[i + 1]) + 0.01 * g.standard_normal((ranks[i], ranks[i + 1]))
            c[:, 1, 0, :] = eps * (g.standard_normal((ranks[i], ranks[i + 1])) + 1j * g.standard_normal((ranks[i], ranks[i + 1])))
            cores.append(c)
    else:
        raise ValueError(kind)
    cores = right_orthonormalise(cores)
    pad = spec.get("pad")
    if pad:
        # many-qubit registers: computational-basis sites (rank-1 bonds) in front of and behind the entangled block.
        # The dense oracle only ever sees the block; a padding site measured yields its basis bit with probability one.
        # A padding entry is a bit (basis state) or [p0, phi]: the single-qubit state sqrt(p0)|0> + e^{i phi} sqrt(1-p0)|1>
        # (still a rank-1 bond, so the register stays a product of padding and block; a register with more than 52
        # such sites has NO outcome whose probability is above machine epsilon).
        def basis(bit):
            c = np.zeros((1, 2, 1, 1), dtype=complex)
            if isinstance(bit, (list, tuple)):
                p0, phi = float(bit[0]), float(bit[1])
                c[0, 0, 0, 0] = np.sqrt(p0)
                c[0, 1, 0, 0] = np.sqrt(1.0 - p0) * np.exp(1j * phi)
                return c
            c[0, bit, 0, 0] = 1.0
            return c
        cores = [basis(b) for b in pad["left"]] + cores + [basis(b) for b in pad["right"]]
    if spec.get("realify"):
        # minimal-dtype storage: cores without an imaginary part are kept as real arrays (a train may legitimately
        # mix real and complex cores)
        cores = [np.ascontiguousarray(c.real) if np.all(c.imag == 0) else c for c in cores]
    return cores


def oracle_marginal(cores, measured_sorted):
    d = M.dense_cores(cores)
    n = len(cores)
    psi = d.reshape((2,) * n)
    p = (psi.conj() * psi).real
    unmeasured = tuple(i for i in range(n) if i not in measured_sorted)
    marg = p.sum(axis=unmeasured) if unmeasured else p
    return marg  # shape (2,)*k, ascending site order


def cond_p0(marg, bits):
    sub = marg[tuple(bits)]
    tot = float(sub.sum())
    if tot <= 0.0:
        return None
    return float(sub[0].sum() if sub.ndim > 1 else sub[0]) / tot


def predict(marg, U):
    """Inverse-CDF samples for the variate matrix U (N x k); returns (bits N x k, min distance to a boundary)."""
    N, k = U.shape
    out = np.zeros((N, k))
    mind = 1.0
    for s in range(N):
        bits = []
        amp = 1.0     # an outcome of conditional probability q << 1 may be small by cancellation, which amplifies the
        # relative rounding error of everything conditioned on it by up to 1/q: distances are discounted accordingly
        for i in range(k):
            p0 = cond_p0(marg, bits)
            if p0 is None:
                return None, 0.0
            u = U[s, i]
            mind = min(mind, abs(u - p0) / amp)
            b = 1 if u > p0 else 0
            q = (1.0 - p0) if b else p0
            amp *= max(1.0, 1e-3 / max(q, 1e-300))
            bits.append(b)
            out[s, i] = b
    return out, mind


def adversarial_plan(g, marg, N, k):
    """Variates placed +-1e-6 either side of each conditional probability along the oracle's own path,
    plus 0.0 and 1-2^-53; never closer than GUARD to a boundary."""
    U = np.zeros((N, k))
    top = 1.0 - 2.0 ** -53
    for s in range(N):
        bits = []
        rare = int(g.integers(0, k + 1)) if g.random() < 0.3 else 0   # this row takes the rarer outcome on its first `rare` sites
        for i in range(k):
            p0 = cond_p0(marg, bits)
            c = g.integers(0, 6)
            if p0 is None:
                U[s, i:] = g.uniform(size=k - i) * top
                break
            if i < rare and min(p0, 1.0 - p0) >= 1e-3:
                u = 0.0 if p0 < 0.5 else top
            elif c == 0:
                u = p0 - 1e-6
            elif c == 1:
                u = p0 + 1e-6
            elif c == 2:
                u = 0.0
            elif c == 3:
                u = top
            else:
                u = g.uniform()
            u = min(max(u, 0.0), top)
            tries = 0
            while abs(u - p0) < 1e-7 and tries < 20:
                u = g.uniform() * top
                tries += 1
            U[s, i] = u
            bits.append(1 if u > p0 else 0)
    return U


class Run(object):
    def __init__(self, keep_events=False):
        self.ttm = env.import_sut()
        import scikit_tt.quantum_computation as qc
        self.qc = qc
        self.log = EventLog(keep=keep_events)
        self.seams = Seams()
        self.probes = self.seams.probes
        self.state = None
        self.cores = None
        self.snap = None
        self.ops_done = 0
        self.step_no = 0
        self.state_keys = set()
        self.modes = set()
        self.pad = None

    def _fail(self, clause, detail):
        raise Violation("C20", "oracle(sampling,%s)" % clause, clause, detail, step=self.step_no)

    def step(self, rec):
        self.step_no += 1
        self.log.add("op", self.step_no, rec["op"], {k: v for k, v in rec.items() if k not in ("op",)})
        if rec["op"] == "state":
            self.pad = rec["spec"].get("pad")
            if self.pad:
                sp = dict(rec["spec"]); sp.pop("pad")
                self.block_cores = build_state(sp)
                self.block_n = len(self.block_cores)
            self.cores = build_state(rec["spec"])
            try:
                self.state = self.ttm.TT([c.copy() for c in self.cores])
            except Exception as e:
                self._fail("state-construction", {"exception": repr(e)[:300]})
            if rec["spec"].get("via_sut"):
                # realistic preparation: scale the state and let the library's own right-orthonormalisation and norm
                # bring it back (real components); it must again be normalised and right-orthonormal
                t = self.ttm.TT([c.copy() for c in self.cores])
                t.cores[-1] = t.cores[-1] * 3.0
                t = t.ortho_right()
                t = (1.0 / t.norm()) * t
                if any(M.right_gram_defect(c) > 1e-10 for c in t.cores[1:]) or abs(np.linalg.norm(t.cores[0].ravel()) - 1.0) > 1e-10:
                    self.probes["sut_preparation_not_orthonormal_skipped"] += 1
                else:
                    self.state = t
                    self.cores = [np.array(c) for c in t.cores]
                    self.probes["state_prepared_by_sut"] += 1
            if self.pad:
                self.snap = None
                self.log.add("snap-padded", M.meta(self.state))
                return "ok"
            self.snap = M.Snapshot(self.state)
            self.log.add("snap", self.snap.meta, arr_digest(self.snap.dense))
            return "ok"
        if self.state is None:
            return "skip"
        if rec["op"] == "gate":
            return self.op_gate(rec)
        return self.op_sample(rec)

    def _sample_padded(self, rec, measure, ms, N, mode):
        """Registers with up to ~70 qubits: left padding | entangled block | right padding (all padding sites in basis
        states).  Prediction: padding sites give their bit (p0 is exactly 1 or 0; variates are kept away from 0 and 1),
        the block is predicted densely from the variates of its own columns."""
        L, B = len(self.pad["left"]), self.block_n
        top = 1.0 - 2.0 ** -53
        g = np_gen(rec.get("plan_seed", 0))
        k = len(ms)
        U = np.clip(g.uniform(size=(N, k)), 1e-6, 1 - 1e-6) if mode != "const" else np.full((N, k), min(max(float(rec.get("c", 0.5)), 1e-6), 1 - 1e-6))
        blk_sites = [x - L for x in ms if L <= x < L + B]
        want = np.zeros((N, k))
        cols_blk = [j for j, x in enumerate(ms) if L <= x < L + B]
        if blk_sites:
            marg = oracle_marginal(self.block_cores, blk_sites)
            wb, mind = predict(marg, U[:, cols_blk])
            if wb is None or mind < GUARD:
                self.probes["variate_on_boundary_skipped"] += 1
                return "skip"
            want[:, cols_blk] = wb
        logp = np.zeros(N)
        for j, x in enumerate(ms):
            if x < L:
                e = self.pad["left"][x]
            elif x >= L + B:
                e = self.pad["right"][x - L - B]
            else:
                continue
            if isinstance(e, (list, tuple)):
                # superposition site of a product register: its conditional probability is p0 whatever was drawn before
                p0 = float(e[0])
                if np.min(np.abs(U[:, j] - p0)) < 1e-7:
                    self.probes["variate_on_boundary_skipped"] += 1
                    return "skip"
                want[:, j] = (U[:, j] > p0)
                logp += np.log(np.where(want[:, j] > 0, 1.0 - p0, p0))
                self.probes["padded_superposition_site_measured"] += 1
            else:
                want[:, j] = e
        if logp.min() < -600.0:       # the joint probability itself would underflow: not a statement about the sampler
            self.probes["padded_underflow_skipped"] += 1
            return "skip"
        if logp.max() < math.log(2.0 ** -52):
            self.probes["padded_every_outcome_below_machine_epsilon"] += 1
        seen = {"ok": True}

        def plan(shape):
            if tuple(shape) == (N, k):
                return U.copy()
            seen["ok"] = False
            return np.clip(g.uniform(size=shape), 1e-6, 1 - 1e-6)
        self.seams.rng_plan = plan
        self.seams.rng_requests = []
        self.seams.begin_op(())
        try:
            out, exc = self.qc.sampling(self.state, list(measure), N), None
        except Exception as e:  # noqa
            out, exc = None, e
        finally:
            self.seams.end_op()
            self.seams.rng_plan = None
        self.ops_done += 1
        self.modes.add((mode, k, self.state.order))
        if exc is not None:
            self._fail("raised", {"exception": repr(exc)[:300], "n": self.state.order, "measured": k})
        try:
            samples, freqs = out
            samples = np.asarray(samples)
            freqs = np.asarray(freqs, dtype=float)
        except Exception as e:
            self._fail("shape", {"problem": repr(e)[:200]})
        if samples.ndim != 2 or samples.shape[1] != k or samples.shape[0] != len(freqs):
            self._fail("shape", {"samples": samples.shape, "k": k})
        rows = [tuple(int(b) for b in r_) for r_ in samples]
        if len(set(rows)) != len(rows) or abs(float(freqs.sum()) - 1.0) > 1e-9:
            self._fail("frequencies-sum", {"sum": float(freqs.sum()), "rows": len(rows), "distinct": len(set(rows))})
        if seen["ok"] and self.seams.rng_requests and measure == ms:
            ur, cnt = np.unique(want, axis=0, return_counts=True)
            pred = dict(zip([tuple(int(b) for b in r_) for r_ in ur], (cnt / N).tolist()))
            got = dict(zip(rows, freqs.tolist()))
            if pred.keys() != got.keys() or any(abs(pred[r_] - got[r_]) > 1e-12 for r_ in pred):
                self._fail("inverse-cdf", {"mode": mode, "n": self.state.order, "measured_sites": k, "N": N,
                                           "predicted_rows": len(pred), "returned_rows": len(got)})
            self.probes["exact_prediction_checked:padded"] += 1
        self.state_keys.add((self.state.order, k, mode, "padded"))
        return "ok"

    def op_gate(self, rec):
        if self.pad is not None:
            return "skip"
        """The caller applies a single-qubit unitary to one site of the SAME state object by assigning a new core (as
        ode.tjm does with its jump operators).  Norm and right-orthonormality are preserved, so the state stays in the
        property's domain; every later sampler call must see the new state (no result may be remembered per object)."""
        i = int(rec["site"])
        if not (0 <= i < self.state.order):
            return "skip"
        g = np_gen(rec.get("seed", 0))
        old = np.asarray(self.state.cores[i]).astype(complex)
        if rec.get("how") == "replace":
            # a different core altogether: a random right-isometry of the same shape (site 0: a random unit-norm core).
            # The state stays normalised and right-orthonormal, but -- unlike a local unitary on a traced-out site --
            # the marginals of the sites to its left change.
            r0, m, n_, r1 = old.shape
            z = g.standard_normal((m * n_ * r1, r0)) + 1j * g.standard_normal((m * n_ * r1, r0))
            if i == 0:
                new = (z / np.linalg.norm(z)).T.reshape(r0, m, n_, r1)
            elif r0 <= m * n_ * r1:
                q, _ = np.linalg.qr(z)
                new = q.conj().T.reshape(r0, m, n_, r1)
            else:
                return "skip"
        elif rec.get("how") == "clifford":
            # Hadamard / Pauli gates on structured states (GHZ with equal weights, basis states) produce amplitudes that
            # cancel EXACTLY: left environments whose entries sum to zero, conditional probabilities of exactly 1/2
            h = np.array([[1.0, 1.0], [1.0, -1.0]]) / np.sqrt(2.0)
            u = {"H": h, "X": np.array([[0.0, 1.0], [1.0, 0.0]]), "Z": np.diag([1.0, -1.0]),
                 "HZ": h.dot(np.diag([1.0, -1.0]))}[rec.get("gate", "H")].astype(complex)
            new = np.einsum("ab,rbcs->racs", u, old)
        else:
            z = g.standard_normal((2, 2)) + 1j * g.standard_normal((2, 2))
            q, r = np.linalg.qr(z)
            u = q * (np.diag(r) / np.abs(np.diag(r)))
            new = np.einsum("ab,rbcs->racs", u, old)
        self.state.cores[i] = new
        self.cores[i] = new.copy()
        self.snap = M.Snapshot(self.state)
        self.log.add("gate", i, arr_digest(self.snap.dense))
        self.probes["state_modified_in_place_between_calls"] += 1
        return "ok"

    def op_sample(self, rec):
        n = self.state.order
        measure = [int(x) for x in rec["measure"]]
        if not measure or len(set(measure)) != len(measure) or min(measure) < 0 or max(measure) >= n:
            return "skip"
        ms = sorted(measure)
        k = len(ms)
        N = int(rec["N"])
        mode = rec["mode"]
        if self.pad is not None:
            return self._sample_padded(rec, measure, ms, N, mode)
        marg = oracle_marginal(self.cores, ms)
        g = np_gen(rec.get("plan_seed", 0))
        top = 1.0 - 2.0 ** -53
        if mode == "const":
            c = float(rec["c"])
            U = np.full((N, k), c)
        elif mode == "adversarial":
            U = adversarial_plan(g, marg, N, k)
        else:  # "matrix" and "stream": seeded uniform variates
            U = g.uniform(size=(N, k)) * top
        want, mind = predict(marg, U)
        if want is None or mind < GUARD:
            self.probes["variate_on_boundary_skipped"] += 1
            return "skip"
        understood = {"ok": True}

        def plan(shape):
            if mode == "const":
                return np.full(shape, float(rec["c"]))
            if tuple(shape) == (N, k):
                return U.copy()
            understood["ok"] = False
            return g.uniform(size=shape) * top

        self.seams.rng_plan = plan
        self.seams.rng_requests = []
        np.random.seed(rec.get("plan_seed", 0) % (2 ** 32))
        self.seams.begin_op(())
        try:
            out, exc = self.qc.sampling(self.state, list(measure), N), None
        except Exception as e:  # noqa
            out, exc = None, e
        finally:
            kev = self.seams.end_op()
            self.seams.rng_plan = None
        self.ops_done += 1
        self.modes.add((mode, k, n))
        self.log.add("rng", self.seams.rng_requests)
        if exc is not None:
            self._fail("raised", {"exception": repr(exc)[:300], "measure": measure, "N": N})
        if not self.seams.rng_requests:
            # the sampler no longer draws from numpy.random.rand: the seam does not own its randomness
            self.probes["rng_not_intercepted"] += 1
        try:
            samples, freqs = out
            samples = np.asarray(samples)
            freqs = np.asarray(freqs, dtype=float)
            if samples.dtype.kind not in "biuf" or freqs.ndim != 1:
                raise TypeError("samples %s / frequencies of shape %s" % (samples.dtype, freqs.shape))
        except Exception as e:  # whatever came back is not (bit strings, frequencies)
            self._fail("shape", {"returned": repr(type(out))[:80], "problem": repr(e)[:200]})
        self.log.add("out", arr_digest(samples), arr_digest(freqs))
        # ---- state unchanged
        now = M.Snapshot(self.state)
        if now.meta != self.snap.meta or self.snap.differs(now.dense, 1e-12)[0]:
            self._fail("state-changed", {"before": self.snap.meta, "after": now.meta})
        # ---- shape, bits, distinct rows, frequencies sum to one
        if samples.ndim != 2 or samples.shape[1] != k or samples.shape[0] != len(freqs) or samples.shape[0] < 1:
            self._fail("shape", {"samples": samples.shape, "freqs": freqs.shape, "k": k})
        if not np.all((samples == 0) | (samples == 1)):
            self._fail("not-bits", {"samples": samples.tolist()[:8]})
        rows = [tuple(int(b) for b in r) for r in samples]
        if len(set(rows)) != len(rows):
            self._fail("rows-not-distinct", {"rows": rows[:16]})
        if abs(float(freqs.sum()) - 1.0) > 1e-9 or np.any(freqs <= 0):
            self._fail("frequencies-sum", {"sum": float(freqs.sum()), "freqs": freqs.tolist()[:16]})
        got = dict(zip(rows, freqs.tolist()))
        # ---- exact prediction
        exact_checked = False
        if self.seams.rng_requests and (mode == "const" or understood["ok"]):
            cands = [want]
            if measure != ms:  # unsorted request: columns may follow ascending site order or the order given
                perm = [ms.index(s) for s in measure]
                cands.append(want[:, perm])
            ok = False
            for w in cands:
                ur, cnt = np.unique(w, axis=0, return_counts=True)
                pred = dict(zip([tuple(int(b) for b in r) for r in ur], (cnt / N).tolist()))
                if pred.keys() == got.keys() and all(abs(pred[r] - got[r]) <= 1e-12 for r in pred):
                    ok = True
                    break
            exact_checked = True
            if not ok:
                ur, cnt = np.unique(cands[0], axis=0, return_counts=True)
                pred = dict(zip([tuple(int(b) for b in r) for r in ur], (cnt / N).tolist()))
                self._fail("inverse-cdf", {"mode": mode, "measure": measure, "N": N, "n": n,
                                           "predicted": sorted((list(r), f) for r, f in pred.items())[:8],
                                           "got": sorted((list(r), f) for r, f in got.items())[:8],
                                           "min_boundary_distance": mind})
            self.probes["exact_prediction_checked:" + mode] += 1
        else:
            self.probes["exact_prediction_skipped_layout_not_understood"] += 1
        # ---- large-sample convergence to the marginal (total variation), measured only on sorted requests
        if mode == "stream" and N >= 2000 and measure == ms:
            K = 2 ** k
            tv = 0.0
            flat = marg.reshape(-1)
            emp = np.zeros(K)
            for r, f in got.items():
                emp[int("".join(str(b) for b in r), 2)] = f
            tv = 0.5 * float(np.abs(emp - flat / flat.sum()).sum())
            bound = 0.5 * math.sqrt(K / N) + math.sqrt(math.log(1e12) / (2.0 * N))
            self.probes["tv_checked"] += 1
            if tv > bound:
                self._fail("converges-to-marginal", {"tv": tv, "bound": bound, "N": N, "k": k})
        self.state_keys.add((n, k, mode, tuple(self.snap.meta[3]), exact_checked))
        return "ok"


KINDS = ("random", "random", "random", "product", "mixed_product", "basis", "ghz", "ghz_eq", "w", "skewed")


def swarm_config(seed):
    import os
    rnd = Streams(seed).py("config")
    deep = os.environ.get("SIMTT_TIER") == "thorough"
    return {
        "max_n": rnd.choice((1, 2, 3, 4, 5, 6, 8, 10) if deep else (1, 2, 3, 4, 5, 6, 8)),
        "max_rank": rnd.choice((1, 2, 3, 4, 6) if deep else (1, 2, 3, 4)),
        "length": rnd.choice((1, 2, 3, 5)),
        "big_p": rnd.choice((0.0, 0.05, 0.2)),
        "kinds": rnd.choice((KINDS, ("random",), ("ghz", "ghz_eq", "w", "basis"), ("ghz_eq", "basis"), ("product", "mixed_product", "random"),
                              ("skewed", "random"))),
    }


def generate_and_run(seed, keep_events=False):
    cfg = swarm_config(seed)
    rnd = Streams(seed).py("workload")
    run = Run(keep_events=keep_events)
    records = []
    viol = None
    run.seams.install()
    try:
        n = rnd.randint(1, cfg["max_n"])
        kind = rnd.choice(cfg["kinds"])
        if kind == "skewed" and rnd.random() < 0.7:
            n = max(n, min(8, cfg["max_n"] + 4))     # long runs of unlikely outcomes need sites to happen on
        ranks = [1] + [rnd.randint(1, cfg["max_rank"]) for _ in range(n - 1)] + [1]
        rec = {"op": "state", "spec": {"n": n, "kind": kind, "ranks": ranks, "sub_seed": rnd.getrandbits(48),
                                       "via_sut": rnd.random() < 0.4, "realify": rnd.random() < 0.4}}
        if kind == "skewed":
            rec["spec"]["eps"] = rnd.choice((0.3, 0.1, 0.07, 0.05, 0.04))
        padded = rnd.random() < 0.08
        if padded:
            tot = rnd.choice((12, 30, 64, 66, 70))
            nl = rnd.randint(0, max(0, tot - n))
            sup = rnd.choice((0.0, 0.0, 0.3, 1.0))    # fraction of padding sites in a superposition (rank-1 bond all the same)

            def pad_entry():
                if rnd.random() < sup:
                    return [rnd.choice((0.5, 0.5, round(rnd.uniform(0.05, 0.95), 6), 1e-3, 0.999)), round(rnd.uniform(0.0, 6.283), 6)]
                return rnd.randint(0, 1)
            rec["spec"]["pad"] = {"left": [pad_entry() for _ in range(nl)],
                                  "right": [pad_entry() for _ in range(max(0, tot - n - nl))]}
            rec["spec"]["via_sut"] = False
        state_rec = rec
        records.append(rec)
        run.step(rec)
        prev_measure = None
        if kind in ("ghz_eq", "basis") and rnd.random() < 0.6:
            for _ in range(rnd.randint(1, 2)):
                rec = {"op": "gate", "site": rnd.randrange(n), "seed": rnd.getrandbits(32), "how": "clifford",
                       "gate": rnd.choice(("H", "H", "X", "Z", "HZ"))}
                records.append(rec)
                run.step(rec)
        n_all = n + (len(state_rec["spec"]["pad"]["left"]) + len(state_rec["spec"]["pad"]["right"]) if padded else 0)
        for _ in range(cfg["length"]):
            k = rnd.randint(1, n)
            if kind == "skewed" and rnd.random() < 0.5:
                k = n
            measure = sorted(rnd.sample(range(n), k))
            if padded:
                k = rnd.choice((rnd.randint(1, n_all), n_all, n_all))
                measure = sorted(rnd.sample(range(n_all), k))
            if rnd.random() < 0.2:
                rnd.shuffle(measure)
            if prev_measure is not None and rnd.random() < 0.5:
                measure = list(prev_measure)     # the same measurement again (possibly after the state was edited)
            prev_measure = list(measure)
            mode = rnd.choice(("const", "adversarial", "adversarial", "matrix", "matrix", "stream"))
            if mode == "stream" or rnd.random() < cfg["big_p"]:
                N = rnd.choice((2000, 5000, 20000)) if mode == "stream" else rnd.randint(1, 64)
            else:
                N = rnd.randint(1, 64)
            rec = {"op": "sample", "measure": measure, "N": N, "mode": mode, "plan_seed": rnd.getrandbits(48)}
            if mode == "const":
                rec["c"] = rnd.choice((0.0, 0.25, 0.5, 0.75, 1.0 - 2.0 ** -53, rnd.random()))
            records.append(rec)
            run.step(rec)
            if rnd.random() < 0.3:
                rec = {"op": "gate", "site": rnd.randrange(n), "seed": rnd.getrandbits(32),
                       "how": rnd.choice(("unitary", "replace", "clifford", "clifford") if kind in ("ghz_eq", "basis", "ghz") else ("unitary", "replace")),
                       "gate": rnd.choice(("H", "H", "X", "Z", "HZ"))}
                records.append(rec)
                run.step(rec)
    except Violation as v:
        viol = v
    finally:
        run.seams.uninstall()
    return run, records, viol, cfg


def replay(records, keep_events=False):
    run = Run(keep_events=keep_events)
    viol = None
    run.seams.install()
    try:
        for rec in records:
            run.step(rec)
    except Violation as v:
        viol = v
    finally:
        run.seams.uninstall()
    return run, viol


# ====================================================================== runner interface

NAME = "born"
RULE = ("one history = one normalised right-orthonormal n-qubit state (n 1-8, ranks 1-4, complex; random / product / "
        "computational-basis / GHZ / W / skewed (outcome 1 unlikely on every site); optionally embedded in a product register "
        "of up to 70 qubits whose other sites are basis states or single-qubit superpositions (more than 52 of them: no "
        "outcome has a probability above machine epsilon); own QR preparation or the library's ortho_right/norm; all-complex or minimal-dtype "
        "storage) followed by 1-5 sampler calls on the SAME state object, between which the caller may apply a random "
        "single-qubit unitary to one site in place, each with a measured "
        "site set (sorted or shuffled), a sample count (1-64, or 2000-20000 in stream mode) and a variate plan served "
        "through the numpy.random.rand seam: constant, adversarial (+-1e-6 around each conditional probability on the "
        "oracle's path, 0.0, 1-2^-53, and rows that take the rarer outcome on a prefix of the sites), seeded matrix, seeded stream. NON-TRIVIAL = at least one sampler call whose "
        "output was compared exactly with the dense inverse-CDF prediction; DISTINCT by (n, ranks, state kind, and per "
        "call: measured sites, N bucket, mode).")
COMPONENTS = {
    "real": ["scikit_tt.quantum_computation.sampling", "scikit_tt.tensor_train (TT.diag, transpose, __matmul__, squeeze)", "NumPy"],
    "stub": ["numpy.random.rand (variates served from the simulator's plan)", "matplotlib / matplotlib.pyplot (empty stand-in; not installed here)",
             "clock, stdout (installed, unused by the sampler)"],
}


def simplifier(rec):
    import copy
    out = []
    if rec["op"] == "sample":
        if rec["N"] > 1:
            for n2 in (1, max(1, rec["N"] // 2)):
                r = copy.deepcopy(rec)
                r["N"] = n2
                out.append(r)
        if len(rec["measure"]) > 1:
            for i in range(len(rec["measure"])):
                r = copy.deepcopy(rec)
                del r["measure"][i]
                out.append(r)
        if rec["measure"] != sorted(rec["measure"]):
            r = copy.deepcopy(rec)
            r["measure"] = sorted(r["measure"])
            out.append(r)
        if rec["mode"] != "const":
            r = copy.deepcopy(rec)
            r["mode"] = "const"
            r["c"] = 0.5
            out.append(r)
    elif rec["op"] == "state":
        spec = rec["spec"]
        if spec["kind"] not in ("product",):
            r = copy.deepcopy(rec)
            r["spec"]["kind"] = "product"
            out.append(r)
        for i in range(1, spec["n"]):
            if spec["ranks"][i] > 1:
                r = copy.deepcopy(rec)
                r["spec"]["ranks"][i] -= 1
                out.append(r)
    return out


def evidence_extra(total):
    return {"sampler_calls_by_mode": {k[5:]: v for k, v in sorted(total["extra"].items()) if k.startswith("mode:")}}


def run_one(prop, seed, faults, want_events=False):
    run, records, viol, cfg = generate_and_run(seed, keep_events=want_events)
    exact = sum(v for k, v in run.probes.items() if k.startswith("exact_prediction_checked"))
    key = None
    if exact:
        spec = records[0]["spec"]
        key = H("born", spec["n"], spec["ranks"], spec["kind"],
                [(tuple(r["measure"]), min(r["N"], 65), r["mode"]) if r["op"] == "sample" else ("gate", r["site"])
                 for r in records[1:]])
    out = {"ops": run.ops_done, "digest": run.log.digest(), "fired": dict(run.seams.fired), "probes": dict(run.probes),
           "kernel_calls": dict(run.seams.calls), "trace_key": key, "states": [H("st", k) for k in run.state_keys],
           "raised_ok": 0, "clock_reads": run.seams.clock.reads, "sim_clock_s": run.seams.clock.now - 1.0e9,
           "records": records, "cfg": cfg, "viol": viol.as_dict() if viol else None,
           "extra": {"mode:%s" % m[0]: 1 for m in run.modes}}
    if want_events:
        out["events"] = run.log.events
    return out


def replay_records(prop, records, want_events=False):
    run, viol = replay(records, keep_events=want_events)
    out = {"digest": run.log.digest(), "viol": viol.as_dict() if viol else None, "fired": dict(run.seams.fired)}
    if want_events:
        out["events"] = run.log.events
    return out
