"""Machine A -- C06: histories of API calls over a pool of live tensor trains that may share
ndarray buffers, with faults injected inside calls (DESIGN section 3).

After EVERY step, with the seams suspended:
  O1  every live object that is not the documented in-place target of the step has the same shape
      metadata and the same dense value as its snapshot (also when the step raised / a fault fired);
  O2  a documented in-place target stays structurally consistent (then it is re-snapshotted);
      if the in-place call raised, the target is dropped from the pool;
  O3  every tensor train reachable from the return value, and every live object, is structurally
      consistent.
Identity rule: a returned object that `is` a live object is that object, not a new result.
"""
import copy
import os

from . import env
import numpy as np

from .core import Streams, EventLog, Violation, arr_digest, H, np_gen
from .seams import Seams, LinAlgError, FAULTABLE
from . import model as M
from . import gen

NSLOTS = 6
TOL_O1 = 1e-9
MAX_DENSE = 60000
MAX_RANK_STORE = 40


def _shares(a, b):
    try:
        return bool(np.shares_memory(a, b, max_work=20000))
    except Exception:
        return bool(np.may_share_memory(a, b))


class Slot(object):
    __slots__ = ("tt", "snap", "prov", "serial", "ancestors")

    def __init__(self, tt, snap, prov, serial=0, ancestors=frozenset()):
        self.tt = tt
        self.snap = snap
        self.prov = prov
        self.serial = serial            # monotonically increasing object number (never an id(): ids are reused)
        self.ancestors = ancestors      # serials of the objects this one was computed from (transitively)


class Run(object):
    def __init__(self, cfg=None, keep_events=False):
        self.cfg = cfg or {}
        self.ttm = env.import_sut()
        self.TT = self.ttm.TT
        self.log = EventLog(keep=keep_events)
        self.seams = Seams()
        self.seams.live = self._live_buffers
        self.probes = self.seams.probes
        self.slots = [None] * NSLOTS
        self.edges = {}            # frozenset({i,j}) -> name of the op that created the sharing
        self.step_no = 0
        self.ops_done = 0
        self.raised = 0
        self.raised_fault = 0
        self.state_keys = set()
        self.nontrivial = False
        self.op_names = []
        self.edge_shapes = set()
        self._kev = []
        self._serial = 0
        self._dups = []

    # ------------------------------------------------------------------ pool helpers
    def _live_buffers(self):
        for i, s in enumerate(self.slots):
            if s is not None:
                for c in s.tt.cores:
                    if isinstance(c, np.ndarray):
                        yield i, c

    def live(self):
        return [i for i, s in enumerate(self.slots) if s is not None]

    def meta(self, i):
        return self.slots[i].snap.meta

    def _drop(self, i):
        self.slots[i] = None
        for k in [k for k in self.edges if i in k]:
            del self.edges[k]

    def _slot_shares(self, i, j):
        a, b = self.slots[i].tt, self.slots[j].tt
        for x in a.cores:
            if not isinstance(x, np.ndarray):
                continue
            for y in b.cores:
                if isinstance(y, np.ndarray) and _shares(x, y):
                    return True
        return False

    def _refresh_edges(self, i, producer):
        """Recompute sharing edges of slot i; new edges are attributed to `producer`."""
        for j in self.live():
            if j == i:
                continue
            k = frozenset((i, j))
            sh = self._slot_shares(i, j)
            if sh and k not in self.edges:
                self.edges[k] = producer
                self.probes["alias_edges_created"] += 1
                self.probes["alias_edge:" + producer] += 1
            elif not sh and k in self.edges:
                del self.edges[k]

    def shared_cores(self, i):
        """[(core index, is the reshape LAPACK sees F-contiguous with both dims >= 2 / any dim)] for slot i."""
        out = []
        t = self.slots[i].tt
        others = [self.slots[j].tt for j in self.live() if j != i and frozenset((i, j)) in self.edges]
        for ci, c in enumerate(t.cores):
            if any(_shares(c, y) for o in others for y in o.cores if isinstance(y, np.ndarray)):
                out.append(ci)
        return out

    def _too_big(self, tt):
        size = float(tt.ranks[0]) * float(tt.ranks[-1])
        for a, b in zip(tt.row_dims, tt.col_dims):
            size *= float(a) * float(b)
        # the dense snapshot has 2*order+2 axes; NumPy arrays are limited to 64 (32 before NumPy 2) dimensions
        return size * max(1, max(tt.ranks)) > 4 * MAX_DENSE or max(tt.ranks) > MAX_RANK_STORE or tt.order > 12

    def _store(self, dest, tt, prov, ancestors=frozenset()):
        if any(int(r) == 0 for r in tt.ranks):
            self.probes["result_with_rank0_bond_not_stored"] += 1
            return False
        if self._too_big(tt):
            self.probes["result_too_large_not_stored"] += 1
            return False
        snap = M.Snapshot(tt)
        if not snap.finite:
            self.probes["result_not_finite_not_stored"] += 1
            return False
        if snap.dense.size > MAX_DENSE or max(snap.meta[3]) > MAX_RANK_STORE:
            self.probes["result_too_large_not_stored"] += 1
            return False
        if self.slots[dest] is not None:
            self._drop(dest)
        self._serial += 1
        self.slots[dest] = Slot(tt, snap, prov, self._serial, frozenset(ancestors))
        self._refresh_edges(dest, prov)
        self.log.add("store", dest, prov, snap.meta, arr_digest(snap.dense))
        return True

    # ------------------------------------------------------------------ oracle
    def _viol(self, signature, clause, detail):
        detail = dict(detail)
        detail["kernel_events"] = [list(e) for e in self._kev][:10]
        raise Violation("C06", signature, clause, detail, step=self.step_no)

    def _collect(self, obj, out, depth=0):
        if isinstance(obj, self.TT):
            if not any(o is obj for o in out):
                out.append(obj)
            else:
                self._dups.append(obj)     # the same object at two places of one return value
        elif isinstance(obj, (list, tuple)) and depth < 4:
            for x in obj:
                self._collect(x, out, depth + 1)
        elif isinstance(obj, dict) and depth < 4:
            for x in obj.values():
                self._collect(x, out, depth + 1)

    def _check_O1(self, opname, roles, target, pre_edges):
        for i in self.live():
            if i == target:
                continue
            s = self.slots[i]
            p = M.structural_problem(s.tt)
            now = None
            bad = None
            if p is not None:
                bad = {"problem": p}
            else:
                now = M.Snapshot(s.tt)
                if now.meta != s.snap.meta:
                    bad = {"meta_before": s.snap.meta, "meta_after": now.meta}
                else:
                    df, err = s.snap.differs(now.dense, TOL_O1)
                    if df:
                        bad = {"error": err, "norm": s.snap.norm, "meta": s.snap.meta}
            if bad is None:
                continue
            role = [r for r, j in roles.items() if j == i]
            bad["slot"] = i
            bad["victim_provenance"] = s.prov
            if target is not None and frozenset((i, target)) in pre_edges:
                prod = pre_edges[frozenset((i, target))]
                bad["in_place_op"] = opname
                bad["victim_role"] = role
                self._viol("alias-corruption(%s)" % prod, "O1", bad)
            if role:
                # an argument changed; if it shares buffers with another *argument* that is the in-place
                # target the case was handled above, so this is a direct mutation by the call itself
                self._viol("direct-mutation(%s,%s)" % (opname, "+".join(sorted(role))), "O1", bad)
            # a bystander changed: find an aliasing path to any argument
            for r, j in roles.items():
                if frozenset((i, j)) in pre_edges:
                    bad["via_role"] = r
                    self._viol("alias-corruption(%s)" % pre_edges[frozenset((i, j))], "O1", bad)
            self._viol("unexplained-change(%s)" % opname, "O1", bad)

    # ------------------------------------------------------------------ step
    def step(self, rec):
        self.step_no += 1
        name = rec["op"]
        self._kev = []
        self.log.add("op", self.step_no, name, rec.get("in"), rec.get("dest"), rec.get("args"), rec.get("faults"))
        if name == "new":
            try:
                tt = gen.build_tt(self.ttm, rec["spec"])
            except Exception as e:   # TT(list of well-formed cores) is an API call as well
                self._viol("inconsistent-result(TT.__init__)", "O3", {"problem": "raised " + repr(e)[:300]})
            p_ = M.structural_problem(tt)
            if p_ is not None:
                self._viol("inconsistent-result(TT.__init__)", "O3", {"problem": p_})
            self._store(rec["dest"][0], tt, "new")
            return "ok"
        spec = OPS.get(name)
        if spec is None:
            return "skip"
        api = api_name(rec)
        roles = dict(rec.get("in", {}))
        for r, i in roles.items():
            if isinstance(i, list):
                if any(self.slots[j] is None for j in i):
                    self.log.add("skip", "empty slot")
                    return "skip"
            elif self.slots[i] is None:
                self.log.add("skip", "empty slot")
                return "skip"
        target = None
        inplace = spec["inplace"](rec) if callable(spec["inplace"]) else spec["inplace"]
        if inplace:
            target = roles[inplace]
            # excluded: an in-place call whose other TT arguments are the target itself (not definable)
            for r, j in roles.items():
                if r != inplace and (j == target or (isinstance(j, list) and target in j)):
                    self.log.add("skip", "self-overwrite")
                    return "skip"
        flat_roles = {}
        for r, j in roles.items():
            if isinstance(j, list):
                for n_, jj in enumerate(j):
                    flat_roles["%s[%d]" % (r, n_)] = jj
            else:
                flat_roles[r] = j
        A = {r: (self.slots[j].tt if not isinstance(j, list) else [self.slots[jj].tt for jj in j]) for r, j in roles.items()}
        pre_edges = dict(self.edges)
        if target is not None and any(target in k for k in pre_edges):
            self.nontrivial = True
            self.probes["inplace_op_on_sharing_object"] += 1
        if target is not None:
            tgt = self.slots[target]
            kin = [j for j in self.live() if j != target and (self.slots[j].serial in tgt.ancestors or
                                                             tgt.serial in self.slots[j].ancestors)]
            if kin:
                # the scenario the property is about: a result is mutated in place while an operand it was computed
                # from (or a result computed from it) is still live
                self.nontrivial = True
                self.probes["inplace_op_with_live_relative"] += 1
        anc = set()
        for j in flat_roles.values():
            anc.add(self.slots[j].serial)
            anc |= self.slots[j].ancestors
        g = np_gen(rec.get("sub_seed", 0))
        np.random.seed(rec.get("sub_seed", 0) % (2 ** 32))
        if rec.get("clock_seed") is not None:
            import random as _random
            self.seams.clock.plan = _random.Random(rec["clock_seed"])
        else:
            self.seams.clock.plan = None
        self.seams.begin_op(rec.get("faults", ()), stdout=True, seed=rec.get("sub_seed", 0))
        try:
            out, exc = spec["exec"](self, rec, A, g), None
        except Skip:
            out, exc = None, "skip"
        except Exception as e:  # noqa: a raising call is a legal outcome; O1 still binds
            out, exc = None, e
        finally:
            self._kev = self.seams.end_op()
        for e in self._kev:
            self.log.add("k", *e)
        if exc == "skip":
            self.log.add("skip", "inadmissible")
            return "skip"
        self.ops_done += 1
        self.op_names.append(name)
        fired = any(len(e) > 2 and str(e[2]).startswith("F-") for e in self._kev)
        if fired:
            self.nontrivial = True
        # O3 on everything returned
        results = []
        self._dups = []
        self._collect(out, results)
        for t in results:
            p = M.structural_problem(t)
            if p is not None:
                self._viol("inconsistent-result(%s)" % api, "O3", {"problem": p})
        if self._dups:
            # several entries of one return value (states of a trajectory, eigentensors of several index sets) that are
            # ONE object cannot hold different values, and an in-place call on one entry is a call on the others
            self._viol("duplicate-result(%s)" % api, "identity", {"times": len(self._dups) + 1, "distinct_results": len(results)})
        # O1 on everybody but the documented in-place target
        self._check_O1(api, flat_roles, target, pre_edges)
        if exc is not None:
            self.raised += 1
            if fired:
                self.raised_fault += 1
            self.log.add("raised", type(exc).__name__)
            if target is not None:
                if self.slots[target] is not None:
                    # a documented in-place call that raised (an argument check, a violated precondition, an injected
                    # kernel or stdout failure): the property says nothing about the receiver's VALUE then, but a live
                    # tensor train must still be a tensor train -- order, dimensions, ranks and cores mutually
                    # consistent.  (On the real tree every sweep updates rank entry and cores only after its SVD
                    # succeeded and prints progress only between complete steps, so this is silent there.)
                    p = M.structural_problem(self.slots[target].tt)
                    if p is not None:
                        self._viol("inconsistent-target-after-raise(%s)" % api, "O2", {"problem": p, "exception": repr(exc)[:200]})
                self._drop(target)
            return "raised"
        # O2: the in-place target
        if target is not None:
            tt = self.slots[target].tt
            p = M.structural_problem(tt)
            if p is not None:
                self._viol("inconsistent-target(%s)" % api, "O2", {"problem": p})
            if spec.get("consumes") or self._too_big(tt) or any(int(r) == 0 for r in tt.ranks):
                self._drop(target)
            else:
                snap = M.Snapshot(tt)
                if not snap.finite or snap.dense.size > MAX_DENSE or max(snap.meta[3]) > MAX_RANK_STORE:
                    self._drop(target)
                else:
                    self.slots[target].snap = snap
                    self._refresh_edges(target, api + "[in-place]")
                    self.log.add("target", target, snap.meta, arr_digest(snap.dense))
        # identity rule: a returned object that IS a live object is that object, not a new result.  That is legitimate
        # only where handing back an argument is part of the contract: the receiver of an in-place / overwrite call,
        # and the caller's initial value heading a returned trajectory.  Anything else documented to return a new
        # object must not return an operand (or any other live object): later in-place calls on "the result" would
        # silently be calls on the operand.
        allowed = set()
        if target is not None:
            allowed.add(target)
        if spec.get("returns_initial") and "initial_value" in roles:
            allowed.add(roles["initial_value"])
        for t in results:
            for i in self.live():
                if self.slots[i].tt is t and i not in allowed:
                    role = sorted(r for r, j in flat_roles.items() if j == i)
                    if role:
                        self._viol("returns-operand(%s,%s)" % (api, "+".join(role)), "identity", {"slot": i})
                    self._viol("returns-live-object(%s)" % api, "identity", {"slot": i, "provenance": self.slots[i].prov})
        # store new results
        dests = list(rec.get("dest", ()))
        for t in results:
            if any(s is not None and s.tt is t for s in self.slots):
                self.probes["result_is_live_object"] += 1
                continue
            if not dests:
                self.probes["result_not_stored_no_dest"] += 1
                continue
            self._store(dests.pop(0), t, api, anc)
        self.state_keys.add(self._abstract_state(name))
        for k, v in self.edges.items():
            self.edge_shapes.add(v)
        return "ok"

    def _abstract_state(self, last):
        items = []
        for i in self.live():
            m = self.slots[i].snap.meta
            kind = "c" if np.iscomplexobj(self.slots[i].snap.dense) else "r"
            ne = sum(1 for k in self.edges if i in k)
            items.append((m[0], m[3], kind, ne))
        return (tuple(sorted(items)), last)


class Skip(Exception):
    pass


def _need(cond):
    """Precondition of an API call (argument kinds / matching dimensions); inadmissible records are skipped, because
    a call outside the documented argument types says nothing about the property."""
    if not cond:
        raise Skip()


def _vec(t, dims=None):
    return all(c == 1 for c in t.col_dims) and t.ranks[0] == 1 and t.ranks[-1] == 1 and (dims is None or list(t.row_dims) == list(dims))


def _sqop(t):
    return list(t.row_dims) == list(t.col_dims) and t.ranks[0] == 1 and t.ranks[-1] == 1


def api_name(rec):
    """Name of the API entry point a record exercises (signatures name the API, not the harness op)."""
    name = rec["op"]
    a = rec.get("args", {}) or {}
    w = a.get("which")
    if name == "ode_onestep" or name == "ode_tdvp":
        return "ode." + str(w)
    if name == "ode_splitting":
        return "ode.%s_splitting" % w
    if name == "ode_tjm":
        return "ode.tjm" if w == "tjm" else "ode.tjm_jump_process_tdvp"
    if name == "ode_errors":
        return "ode.errors_" + str(w)
    if name == "sle":
        return "sle." + str(w)
    if name == "evp_als":
        return "evp.als"
    if name == "evp_power":
        return "evp.power_method"
    if name == "tdmd":
        return "tdmd.tdmd_" + str(w)
    if name == "dd_transform":
        return ("regression." if str(w).startswith("mandy") else "transform.") + str(w)
    if name == "dd_arr":
        return "regression.arr"
    if name == "qc_sampling":
        return "quantum_computation.sampling"
    if name == "dd_tedmd":
        return "tedmd.amuset_" + str(w)
    if name == "dd_build":
        return {"ulam_2d": "ulam.ulam_2d", "ulam_3d": "ulam.ulam_3d", "slim_mme": "slim.slim_mme",
                "slim_mme_hom": "slim.slim_mme_hom"}.get(w, "models." + str(a.get("model")))
    if name == "ctor":
        return "tt." + str(a.get("kind"))
    if name == "read":
        return "TT." + str(a.get("what"))
    if name == "concatenate_list":
        return "TT.concatenate"
    if name == "reconstruct":
        return "TT.__init__"
    if name == "misuse":
        return {"add": "TT.__add__", "matmul": "TT.__matmul__", "concatenate_list": "TT.concatenate"}.get(a.get("what"), "TT." + str(a.get("what")))
    if name in ("add", "mul", "matmul"):
        return {"add": "TT.__sub__" if a.get("sub") else "TT.__add__", "mul": "TT.__rmul__" if a.get("right") else "TT.__mul__",
                "matmul": "TT.dot" if a.get("dot") else "TT.__matmul__"}[name]
    if name in OPS and OPS[name]["group"] in ("algebra", "inplace"):
        return "TT." + name
    return name


# ====================================================================== operations
OPS = {}


def op(name, roles=(), inplace=None, group="algebra", weight=1.0, consumes=False, returns_initial=False):
    def deco(fn_pair):
        choose, execute = fn_pair()
        OPS[name] = {"name": name, "roles": roles, "inplace": inplace, "group": group, "weight": weight,
                     "choose": choose, "exec": execute, "consumes": consumes, "returns_initial": returns_initial}
        return fn_pair
    return deco


def _mr(x):
    return np.inf if x is None else x


def _kw(a, *names, **conv):
    """Keyword arguments only for what the record specifies (and, for flags, only when they differ from the documented
    default): the library's own default values are code under test too -- a default `overwrite=False` silently turned
    into True must be seen."""
    out = {}
    for n in names:
        v = a.get(n)
        if v is None or v is False and n == "overwrite":
            continue
        if n in ("ortho_l", "ortho_r") and v is True:
            continue
        if n == "threshold" and v == 0:
            continue
        out[n] = conv[n](v) if n in conv else v
    return out


def is_vec(m):
    return all(c == 1 for c in m[2])


def is_square(m):
    return m[1] == m[2]


def closed(m):
    return m[3][0] == 1 and m[3][-1] == 1


class Ctx(object):
    """What a chooser may look at: the pool's metadata and a PRNG."""

    def __init__(self, rnd, run, cfg):
        self.rnd = rnd
        self.run = run
        self.cfg = cfg
        self.history = []     # (record, serials of its input objects) issued so far (for repeated calls)

    def serials(self, rec):
        out = []
        for r, j in sorted((rec.get("in") or {}).items()):
            for jj in (j if isinstance(j, list) else [j]):
                out.append(self.run.slots[jj].serial if self.run.slots[jj] is not None else None)
        return out

    def live(self):
        return self.run.live()

    def meta(self, i):
        return self.run.meta(i)

    def where(self, pred):
        return [i for i in self.live() if pred(self.meta(i))]

    def tame(self, i):
        """Solvers/integrators are only offered moderately scaled operands: the cost of expm_multiply, the adaptive
        controller etc. grows with the operator norm, and the property does not depend on the scale."""
        n = self.run.slots[i].snap.norm
        return 1e-3 <= n <= 1e2

    def pick(self, pred=lambda m: True):
        c = self.where(pred)
        return self.rnd.choice(c) if c else None

    def dest(self, n=1):
        """n destination slots: free ones first, else victims that are not arguments of this op."""
        free = [i for i in range(NSLOTS) if self.run.slots[i] is None]
        self.rnd.shuffle(free)
        occupied = self.live()
        self.rnd.shuffle(occupied)
        return (free + occupied)[:n]

    def scalar(self):
        r = self.rnd
        c = r.random()
        if c < 0.3:
            return r.choice((2, -1, 3, 1, 0, 1.0))     # 1 and 0 too: "nothing to do" fast paths
        if c < 0.8:
            return round(r.uniform(-2, 2), 3) or 0.5
        return {"re": round(r.uniform(-1, 1), 3), "im": round(r.uniform(-1, 1), 3)}


def _scalar(x):
    if isinstance(x, dict):
        return complex(x["re"], x["im"])
    return x


def _pairs(ctx, pred):
    L = ctx.live()
    return [(a, b) for a in L for b in L if pred(ctx.meta(a), ctx.meta(b))]


# ---------------------------------------------------------------- constructors (O3 on returned TTs)
@op("ctor", group="ctor")
def _ctor():
    def choose(ctx):
        r = ctx.rnd
        dims = ctx.cfg["dims"]
        d = len(dims)
        kind = r.choice(("zeros", "ones", "eye", "unit", "rand", "canonical", "uniform"))
        a = {"kind": kind}
        if kind in ("zeros", "ones", "rand"):
            a["rows"] = list(dims)
            a["cols"] = r.choice(([1] * d, list(dims)))
            a["ranks"] = r.choice((1, 2, [1] + [r.randint(1, 3) for _ in range(d - 1)] + [1]))
        elif kind == "eye":
            a["dims"] = list(dims)
        elif kind == "unit":
            a["dims"] = list(dims)
            a["inds"] = [r.randrange(x) for x in dims]
        elif kind == "canonical":
            a["rows"] = list(dims)
            a["max_rank"] = r.randint(1, 4)
        else:
            a["rows"] = list(dims)
            a["ranks"] = r.choice((1, 2, 3))
            a["norm"] = r.choice((1, 2.5))
        return {"op": "ctor", "in": {}, "dest": ctx.dest(1), "args": a}

    def execute(run, rec, A, g):
        a = rec["args"]
        t = run.ttm
        k = a["kind"]
        if k == "zeros":
            return t.zeros(a["rows"], a["cols"], a["ranks"])
        if k == "ones":
            return t.ones(a["rows"], a["cols"], a["ranks"])
        if k == "rand":
            return t.rand(a["rows"], a["cols"], a["ranks"])
        if k == "eye":
            return t.eye(a["dims"])
        if k == "unit":
            return t.unit(a["dims"], a["inds"])
        if k == "canonical":
            return t.canonical(a["rows"], a["max_rank"])
        return t.uniform(a["rows"], a["ranks"], a["norm"])
    return choose, execute


# ---------------------------------------------------------------- arithmetic
@op("add", roles=("self", "other"))
def _add():
    def choose(ctx):
        p = _pairs(ctx, lambda a, b: a[1] == b[1] and a[2] == b[2] and max(a[3]) + max(b[3]) <= 30)
        if not p:
            return None
        a, b = ctx.rnd.choice(p)
        return {"op": "add", "in": {"self": a, "other": b}, "dest": ctx.dest(1), "args": {"sub": ctx.rnd.random() < 0.4}}

    def execute(run, rec, A, g):
        return (A["self"] - A["other"]) if rec["args"].get("sub") else (A["self"] + A["other"])
    return choose, execute


@op("mul", roles=("self",))
def _mul():
    def choose(ctx):
        a = ctx.pick()
        if a is None:
            return None
        return {"op": "mul", "in": {"self": a}, "dest": ctx.dest(1), "args": {"scalar": ctx.scalar(), "right": ctx.rnd.random() < 0.5}}

    def execute(run, rec, A, g):
        s = _scalar(rec["args"]["scalar"])
        return (s * A["self"]) if rec["args"].get("right") else (A["self"] * s)
    return choose, execute


@op("matmul", roles=("self", "other"))
def _matmul():
    def choose(ctx):
        p = _pairs(ctx, lambda a, b: a[2] == b[1] and max(a[3]) * max(b[3]) <= 36)
        if not p:
            return None
        a, b = ctx.rnd.choice(p)
        return {"op": "matmul", "in": {"self": a, "other": b}, "dest": ctx.dest(1), "args": {"dot": ctx.rnd.random() < 0.3}}

    def execute(run, rec, A, g):
        return A["self"].dot(A["other"]) if rec["args"].get("dot") else (A["self"] @ A["other"])
    return choose, execute


def _td_candidates(ctx):
    out = []
    L = ctx.live()
    for a in L:
        ma = ctx.meta(a)
        for b in L:
            mb = ctx.meta(b)
            for mode in ("last-first", "last-last", "first-last", "first-first"):
                sa_last = mode.startswith("last")
                sb_last = mode.endswith("last")
                if (ma[3][-1] if sa_last else ma[3][0]) != 1 or (mb[3][-1] if sb_last else mb[3][0]) != 1:
                    continue
                for k in range(1, min(ma[0], mb[0]) + 1):
                    ra = ma[1][ma[0] - k:] if sa_last else ma[1][:k]
                    ca = ma[2][ma[0] - k:] if sa_last else ma[2][:k]
                    rb = mb[1][mb[0] - k:] if sb_last else mb[1][:k]
                    cb = mb[2][mb[0] - k:] if sb_last else mb[2][:k]
                    if ra == rb and ca == cb:
                        out.append((a, b, mode, k))
    return out


@op("tensordot", roles=("self", "other"), inplace=lambda rec: "self" if rec["args"].get("overwrite") else None)
def _tensordot():
    def choose(ctx):
        c = _td_candidates(ctx)
        if not c:
            return None
        # complete contraction over one operand with pass-through cores of the other left over is its own code path in
        # every mode (and the one where results used to take over the operand's arrays): make it as likely as the rest
        w = [6.0 if (k == ctx.meta(a)[0] and ctx.meta(b)[0] >= k + 2) or (k == ctx.meta(b)[0] and ctx.meta(a)[0] >= k + 2)
             else (2.0 if k in (ctx.meta(a)[0], ctx.meta(b)[0]) else 1.0) for a, b, mode, k in c]
        a, b, mode, k = ctx.rnd.choices(c, w)[0]
        ow = ctx.rnd.random() < 0.25 and a != b
        rec = {"op": "tensordot", "in": {"self": a, "other": b}, "args": {"num_axes": k, "mode": mode, "overwrite": ow}}
        rec["dest"] = [] if ow else ctx.dest(1)
        return rec

    def execute(run, rec, A, g):
        a = rec["args"]
        return A["self"].tensordot(A["other"], a["num_axes"], **_kw(a, "mode", "overwrite"))
    return choose, execute


@op("rank_tensordot", roles=("self",), inplace=lambda rec: "self" if rec["args"].get("overwrite") else None)
def _rank_tensordot():
    def choose(ctx):
        a = ctx.pick()
        if a is None:
            return None
        ow = ctx.rnd.random() < 0.3
        return {"op": "rank_tensordot", "in": {"self": a}, "dest": [] if ow else ctx.dest(1),
                "args": {"mode": ctx.rnd.choice(("last", "first")), "q": ctx.rnd.randint(1, 3), "overwrite": ow}}

    def execute(run, rec, A, g):
        a = rec["args"]
        t = A["self"]
        if a["mode"] == "last":
            mat = g.standard_normal((t.ranks[-1], a["q"]))
        else:
            mat = g.standard_normal((a["q"], t.ranks[0]))
        return t.rank_tensordot(mat, **_kw(a, "mode", "overwrite"))
    return choose, execute


@op("concatenate", roles=("self", "other"), inplace=lambda rec: "self" if rec["args"].get("overwrite") else None)
def _concatenate():
    def choose(ctx):
        p = _pairs(ctx, lambda a, b: a[3][-1] == b[3][0] and a[0] + b[0] <= 6 and
                   int(np.prod(a[1])) * int(np.prod(a[2])) * int(np.prod(b[1])) * int(np.prod(b[2])) <= MAX_DENSE)
        if not p:
            return None
        a, b = ctx.rnd.choice(p)
        ow = ctx.rnd.random() < 0.3 and a != b
        return {"op": "concatenate", "in": {"self": a, "other": b}, "dest": [] if ow else ctx.dest(1), "args": {"overwrite": ow}}

    def execute(run, rec, A, g):
        return A["self"].concatenate(A["other"], **_kw(rec["args"], "overwrite"))
    return choose, execute


@op("concatenate_list", roles=("self",), inplace=lambda rec: "self" if rec["args"].get("overwrite") else None)
def _concatenate_list():
    def choose(ctx):
        a = ctx.pick(lambda m: m[0] <= 4 and int(np.prod(m[1])) * int(np.prod(m[2])) <= 2000)
        if a is None:
            return None
        ow = ctx.rnd.random() < 0.3
        return {"op": "concatenate_list", "in": {"self": a}, "dest": [] if ow else ctx.dest(1),
                "args": {"overwrite": ow, "n": ctx.rnd.randint(1, 2), "m": ctx.rnd.randint(1, 2)}}

    def execute(run, rec, A, g):
        t = A["self"]
        a = rec["args"]
        r = t.ranks[-1]
        cores = []
        for i in range(a["n"]):
            r2 = 1 if i == a["n"] - 1 else 2
            cores.append(g.standard_normal((r, a["m"], 1, r2)))
            r = r2
        return t.concatenate(cores, **_kw(a, "overwrite"))
    return choose, execute


def _unary_ow(name, call, p_ow=0.35, extra_args=None, pred=lambda m: True):
    @op(name, roles=("self",), inplace=lambda rec: "self" if rec["args"].get("overwrite") else None)
    def _f():
        def choose(ctx):
            a = ctx.pick(pred)
            if a is None:
                return None
            ow = ctx.rnd.random() < p_ow
            args = {"overwrite": ow}
            if extra_args:
                args.update(extra_args(ctx, ctx.meta(a)))
            return {"op": name, "in": {"self": a}, "dest": [] if ow else ctx.dest(1), "args": args}

        def execute(run, rec, A, g):
            return call(A["self"], rec["args"])
        return choose, execute
    return _f


_unary_ow("transpose", lambda t, a: t.transpose(**_kw(dict(a, conjugate=a.get("conjugate") or None), "cores", "conjugate", "overwrite")),
          extra_args=lambda ctx, m: {"conjugate": ctx.rnd.random() < 0.5,
                                     "cores": (None if ctx.rnd.random() < 0.6 else sorted(ctx.rnd.sample(range(m[0]), ctx.rnd.randint(1, m[0]))))})
_unary_ow("conj", lambda t, a: t.conj(**_kw(a, "overwrite")))
_unary_ow("rank_transpose", lambda t, a: t.rank_transpose(**_kw(a, "overwrite")))


@op("misuse", roles=("self", "other"), inplace=lambda rec: "self" if rec["args"].get("overwrite") else None, weight=0.8)
def _misuse():
    """Calls whose documented preconditions do NOT hold (mismatching dimensions / ranks): they must raise and leave every
    operand as it was (also the receiver of an overwrite=True variant must stay a consistent tensor train)."""
    def choose(ctx):
        L = ctx.live()
        if len(L) < 2:
            return None
        r = ctx.rnd
        for _ in range(8):
            a, b = r.choice(L), r.choice(L)
            if a == b:
                continue
            ma, mb = ctx.meta(a), ctx.meta(b)
            what = r.choice(("add", "matmul", "concatenate", "concatenate_list", "tensordot", "rank_tensordot"))
            ow = r.random() < 0.5
            if what == "add" and (ma[1] != mb[1] or ma[2] != mb[2]):
                return {"op": "misuse", "in": {"self": a, "other": b}, "dest": [], "args": {"what": "add"}}
            if what == "matmul" and ma[2] != mb[1]:
                return {"op": "misuse", "in": {"self": a, "other": b}, "dest": [], "args": {"what": "matmul"}}
            if what == "concatenate" and ma[3][-1] != mb[3][0]:
                return {"op": "misuse", "in": {"self": a, "other": b}, "dest": [], "args": {"what": "concatenate", "overwrite": ow}}
            if what == "concatenate_list":
                return {"op": "misuse", "in": {"self": a, "other": b}, "dest": [],
                        "args": {"what": "concatenate_list", "overwrite": ow, "bad": r.choice(("rank", "ndim", "chain"))}}
            if what == "tensordot":
                k = r.randint(1, min(ma[0], mb[0]))
                mode = r.choice(("last-first", "last-last", "first-last", "first-first"))
                if (a, b, mode, k) not in set(_td_candidates(ctx)):
                    return {"op": "misuse", "in": {"self": a, "other": b}, "dest": [],
                            "args": {"what": "tensordot", "overwrite": ow, "num_axes": k, "mode": mode}}
            if what == "rank_tensordot":
                return {"op": "misuse", "in": {"self": a, "other": b}, "dest": [],
                        "args": {"what": "rank_tensordot", "overwrite": ow, "mode": r.choice(("last", "first"))}}
        return None

    def execute(run, rec, A, g):
        a = rec["args"]
        t, o = A["self"], A["other"]
        w = a["what"]
        ow = bool(a.get("overwrite"))
        if w == "add":
            _need(t.row_dims != o.row_dims or t.col_dims != o.col_dims)
            return t + o
        if w == "matmul":
            _need(t.col_dims != o.row_dims)
            return t @ o
        if w == "concatenate":
            _need(t.ranks[-1] != o.ranks[0])
            return t.concatenate(o, overwrite=ow)
        if w == "concatenate_list":
            r = t.ranks[-1]
            if a["bad"] == "rank":
                cores = [g.standard_normal((r + 1, 2, 1, 1))]
            elif a["bad"] == "ndim":
                cores = [g.standard_normal((r, 2, 1, 2)), g.standard_normal((2, 2, 1))]
            else:
                cores = [g.standard_normal((r, 2, 1, 2)), g.standard_normal((3, 2, 1, 1))]
            return t.concatenate(cores, overwrite=ow)
        if w == "tensordot":
            return t.tensordot(o, a["num_axes"], mode=a["mode"], overwrite=ow)
        mat = g.standard_normal((t.ranks[-1] + 1, 2)) if a["mode"] == "last" else g.standard_normal((2, t.ranks[0] + 1))
        return t.rank_tensordot(mat, mode=a["mode"], overwrite=ow)
    return choose, execute


@op("copy", roles=("self",))
def _copy():
    def choose(ctx):
        a = ctx.pick()
        return None if a is None else {"op": "copy", "in": {"self": a}, "dest": ctx.dest(1), "args": {}}

    def execute(run, rec, A, g):
        return A["self"].copy()
    return choose, execute


@op("reconstruct", roles=("self",))
def _reconstruct():
    def choose(ctx):
        a = ctx.pick(lambda m: closed(m) and int(np.prod(m[1])) * int(np.prod(m[2])) <= 4096)
        if a is None:
            return None
        r = ctx.rnd
        args = {"how": r.choice(("array", "cores", "cores_shared"))}
        c = r.random()
        if c < 0.3:
            args["max_rank"] = r.randint(1, 3)
        elif c < 0.5:
            args["threshold"] = r.choice((1e-12, 1e-3))
        if r.random() < 0.2:
            args["progress"] = True
        return {"op": "reconstruct", "in": {"self": a}, "dest": ctx.dest(1), "args": args}

    def execute(run, rec, A, g):
        a = rec["args"]
        t = A["self"]
        _need(t.ranks[0] == 1 and t.ranks[-1] == 1)
        kw = {"threshold": a.get("threshold", 0), "max_rank": _mr(a.get("max_rank"))}
        if a["how"] == "array":
            return run.TT(t.full(), progress=bool(a.get("progress")), **kw)
        if a["how"] == "cores":
            return run.TT([c.copy() for c in t.cores], **kw)
        # TT(list) keeps the caller's list and arrays by documented design (out of scope, DESIGN 3.6); handing it a fresh
        # list of the SAME arrays is only legitimate for a harness if it then never looks at the operand again -- so the
        # harness does what a user would: passes copies unless no truncation (=no in-place sweep) is requested
        if kw["threshold"] == 0 and kw["max_rank"] == np.inf:
            return run.TT([c.copy() for c in t.cores])
        return run.TT([c.copy() for c in t.cores], **kw)
    return choose, execute


@op("read", roles=("self",), weight=1.5)
def _read():
    def choose(ctx):
        a = ctx.pick()
        if a is None:
            return None
        return {"op": "read", "in": {"self": a}, "dest": [], "args": {"what": ctx.rnd.choice(
            ("full", "matricize", "element", "isoperator", "repr", "norm1", "norm2", "norm2"))}}

    def execute(run, rec, A, g):
        t = A["self"]
        w = rec["args"]["what"]
        if w == "full":
            return t.full()
        if w == "matricize":
            return t.matricize()
        if w == "element":
            return t.element([0] * (2 * t.order))
        if w == "isoperator":
            return t.isoperator()
        if w == "repr":
            return repr(t)
        if w == "norm1":
            return t.norm(p=1)
        return t.norm(p=2)
    return choose, execute


def _factor(n):
    for f in (2, 3):
        if n % f == 0 and n > f:
            return [f, n // f]
    return [n]


@op("tt2qtt", roles=("self",))
def _tt2qtt():
    def choose(ctx):
        a = ctx.pick(closed)
        if a is None:
            return None
        m = ctx.meta(a)
        rows, cols = [], []
        for i in range(m[0]):
            fr, fc = _factor(m[1][i]), _factor(m[2][i])
            if ctx.rnd.random() < 0.3:
                fr, fc = [m[1][i]], [m[2][i]]
            n = max(len(fr), len(fc))
            fr = fr + [1] * (n - len(fr))
            fc = fc + [1] * (n - len(fc))
            while ctx.rnd.random() < 0.3 and len(fr) < 4:
                # a trivial (1 x 1) factor in front, in the middle or at the end: splits off a mode-free QTT core
                k = ctx.rnd.randint(0, len(fr))
                fr = fr[:k] + [1] + fr[k:]
                fc = fc[:k] + [1] + fc[k:]
            rows.append(fr)
            cols.append(fc)
        return {"op": "tt2qtt", "in": {"self": a}, "dest": ctx.dest(1),
                "args": {"rows": rows, "cols": cols, "threshold": ctx.rnd.choice((0, 0, 1e-12, 1e-3))}}

    def execute(run, rec, A, g):
        a = rec["args"]
        t = A["self"]
        if len(a["rows"]) != t.order:
            raise Skip()
        return t.tt2qtt(a["rows"], a["cols"], **_kw(a, "threshold"))
    return choose, execute


@op("qtt2tt", roles=("self",))
def _qtt2tt():
    def choose(ctx):
        a = ctx.pick(lambda m: m[0] >= 2 and int(np.prod(m[1])) * int(np.prod(m[2])) <= 6561)
        if a is None:
            return None
        d = ctx.meta(a)[0]
        parts = []
        left = d
        while left:
            k = ctx.rnd.randint(1, left)
            parts.append(k)
            left -= k
        return {"op": "qtt2tt", "in": {"self": a}, "dest": ctx.dest(1), "args": {"merge": parts}}

    def execute(run, rec, A, g):
        if sum(rec["args"]["merge"]) != A["self"].order:
            raise Skip()
        return A["self"].qtt2tt(rec["args"]["merge"])
    return choose, execute


def _svd_choose(name):
    def choose(ctx):
        a = ctx.pick(lambda m: is_vec(m) and m[0] >= 2)
        if a is None:
            return None
        r = ctx.rnd
        d = ctx.meta(a)[0]
        ow = r.random() < 0.3
        args = {"index": r.randint(1, d - 1), "overwrite": ow}
        if r.random() < 0.3:
            args["threshold"] = r.choice((1e-12, 1e-3))
        if name == "svd" and r.random() < 0.25:
            args["max_rank"] = r.randint(1, 3)
        if r.random() < 0.3:
            args["ortho_l"] = False
        if r.random() < 0.3:
            args["ortho_r"] = False
        return {"op": name, "in": {"self": a}, "dest": ctx.dest(2 if name == "svd" else 1), "args": args}
    return choose


@op("svd", roles=("self",), inplace=lambda rec: "self" if rec["args"].get("overwrite") else None, consumes=True)
def _svd():
    def execute(run, rec, A, g):
        a = rec["args"]
        t = A["self"]
        _need(all(c == 1 for c in t.col_dims) and 1 <= a["index"] <= t.order - 1)
        return t.svd(a["index"], **_kw(a, "threshold", "max_rank", "ortho_l", "ortho_r", "overwrite"))
    return _svd_choose("svd"), execute


@op("pinv", roles=("self",), inplace=lambda rec: "self" if rec["args"].get("overwrite") else None, consumes=True)
def _pinv():
    def execute(run, rec, A, g):
        a = rec["args"]
        t = A["self"]
        _need(all(c == 1 for c in t.col_dims) and 1 <= a["index"] <= t.order - 1)
        return t.pinv(a["index"], **_kw(a, "threshold", "ortho_l", "ortho_r", "overwrite"))
    return _svd_choose("pinv"), execute


@op("diag", roles=("self",), weight=1.5)
def _diag():
    def choose(ctx):
        a = ctx.pick()
        if a is None:
            return None
        m = ctx.meta(a)
        cand = [i for i in range(m[0]) if m[2][i] == 1]
        k = ctx.rnd.randint(0, len(cand))
        return {"op": "diag", "in": {"self": a}, "dest": ctx.dest(1), "args": {"list": sorted(ctx.rnd.sample(cand, k))}}

    def execute(run, rec, A, g):
        t = A["self"]
        if any(i >= t.order for i in rec["args"]["list"]):
            raise Skip()
        return t.diag(rec["args"]["list"])
    return choose, execute


@op("squeeze", roles=("self",), weight=1.5)
def _squeeze():
    def choose(ctx):
        a = ctx.pick(lambda m: any(r == 1 and c == 1 for r, c in zip(m[1], m[2]))) if ctx.rnd.random() < 0.7 else ctx.pick()
        if a is None:
            return None
        return {"op": "squeeze", "in": {"self": a}, "dest": ctx.dest(1), "args": {}}

    def execute(run, rec, A, g):
        return A["self"].squeeze()
    return choose, execute


@op("residual_error", roles=("operator", "lhs", "rhs"), group="solver", weight=0.5)
def _residual():
    def choose(ctx):
        t = _op_vec_vec(ctx)
        if t is None:
            return None
        o, x, b = t
        return {"op": "residual_error", "in": {"operator": o, "lhs": x, "rhs": b}, "dest": [], "args": {}}

    def execute(run, rec, A, g):
        _need(_sqop(A["operator"]) and _vec(A["lhs"], A["operator"].row_dims) and _vec(A["rhs"], A["operator"].row_dims))
        return run.ttm.residual_error(A["operator"], A["lhs"], A["rhs"])
    return choose, execute


# ---------------------------------------------------------------- documented in-place mutators
def _sweep_args(ctx, m, which):
    r = ctx.rnd
    d = m[0]
    a = {}
    if which == "ortho_left" and d >= 2 and r.random() < 0.6:
        s = r.randint(0, d - 2)
        a["start_index"] = s
        a["end_index"] = r.randint(s, d - 2)
    if which == "ortho_right" and d >= 2 and r.random() < 0.6:
        s = r.randint(1, d - 1)
        a["start_index"] = s
        a["end_index"] = r.randint(1, s)
    c = r.random()
    if c < 0.2:
        a["max_rank"] = r.randint(1, 3)
    elif c < 0.35:
        a["threshold"] = r.choice((1e-12, 1e-6, 0.1))
    if which == "ortho_left" and r.random() < 0.15:
        a["progress"] = True
    return a


def _sweep(name):
    @op(name, roles=("self",), inplace="self", group="inplace", weight=2.0)
    def _f():
        def choose(ctx):
            a = ctx.pick()
            if a is None:
                return None
            return {"op": name, "in": {"self": a}, "dest": [], "args": _sweep_args(ctx, ctx.meta(a), name)}

        def execute(run, rec, A, g):
            t = A["self"]
            a = rec["args"]
            kw = {}
            for k in ("start_index", "end_index", "threshold"):
                if a.get(k) is not None:
                    kw[k] = a[k]
            if name == "ortho_left" and a.get("progress"):
                kw["progress"] = True
            if a.get("max_rank") is not None:
                kw["max_rank"] = a["max_rank"]
            d = t.order
            if name == "ortho_left":
                if not (0 <= kw.get("start_index", 0) and kw.get("end_index", d - 2) <= d - 2):
                    raise Skip()
                return t.ortho_left(**kw)
            if name == "ortho_right":
                if not (1 <= kw.get("end_index", 1) and kw.get("start_index", d - 1) <= d - 1):
                    raise Skip()
                return t.ortho_right(**kw)
            kw.pop("start_index", None)
            kw.pop("end_index", None)
            return t.ortho(**kw)
        return choose, execute
    return _f


for _n in ("ortho_left", "ortho_right", "ortho"):
    _sweep(_n)


# ---------------------------------------------------------------- solvers
def _op_vec_vec(ctx, need_two=True):
    """(operator slot, vector slot, vector slot) with matching dims, or None."""
    L = [i for i in ctx.live() if ctx.tame(i)]
    ops = [i for i in L if is_square(ctx.meta(i)) and closed(ctx.meta(i)) and not is_vec(ctx.meta(i)) and max(ctx.meta(i)[3]) <= 6
           and int(np.prod(ctx.meta(i)[1])) <= 512 and ctx.meta(i)[0] <= 6]
    ctx.rnd.shuffle(ops)
    for o in ops:
        dims = ctx.meta(o)[1]
        vs = [i for i in L if is_vec(ctx.meta(i)) and ctx.meta(i)[1] == dims and closed(ctx.meta(i)) and max(ctx.meta(i)[3]) <= 6]
        if vs:
            return o, ctx.rnd.choice(vs), ctx.rnd.choice(vs)
    return None


@op("sle", roles=("operator", "initial_guess", "right_hand_side"), group="solver", weight=2.0)
def _sle():
    def choose(ctx):
        t = _op_vec_vec(ctx)
        if t is None:
            return None
        o, x, b = t
        r = ctx.rnd
        a = {"which": r.choice(("als", "mals")), "repeats": r.choice((0, 1, 1, 1, 2)), "solver": r.choice(("solve", "lu"))}
        if a["which"] == "mals":
            a["threshold"] = r.choice((1e-12, 1e-6))
            a["max_rank"] = r.choice((None, 2, 4))
        return {"op": "sle", "in": {"operator": o, "initial_guess": x, "right_hand_side": b}, "dest": ctx.dest(1), "args": a}

    def execute(run, rec, A, g):
        import scikit_tt.solvers.sle as sle
        a = rec["args"]
        _need(_sqop(A["operator"]) and _vec(A["initial_guess"], A["operator"].row_dims) and _vec(A["right_hand_side"], A["operator"].row_dims))
        if a["which"] == "als":
            return sle.als(A["operator"], A["initial_guess"], A["right_hand_side"], repeats=a["repeats"], solver=a["solver"])
        return sle.mals(A["operator"], A["initial_guess"], A["right_hand_side"], repeats=a["repeats"], solver=a["solver"],
                        threshold=a.get("threshold", 1e-12), max_rank=_mr(a.get("max_rank")))
    return choose, execute


@op("evp_als", roles=("operator", "initial_guess", "previous", "operator_gevp"), group="solver", weight=2.0)
def _evp():
    def choose(ctx):
        t = _op_vec_vec(ctx)
        if t is None:
            return None
        o, x, b = t
        r = ctx.rnd
        a = {"number_ev": r.choice((1, 1, 2, 3)), "repeats": r.randint(1, 2), "solver": r.choice(("eig", "eigh", "eigs")),
             "sigma": r.choice((1, 0.5, -1)), "real": r.random() < 0.7, "conv_eps": r.choice((1e-10, 0))}
        ins = {"operator": o, "initial_guess": x}
        if r.random() < 0.25:
            ins["previous"] = [b]
            a["shift"] = r.choice((0.5, 2.0))
        if r.random() < 0.2:
            L = [i for i in ctx.live() if ctx.meta(i)[1] == ctx.meta(o)[1] and ctx.meta(i)[2] == ctx.meta(o)[2] and closed(ctx.meta(i))]
            ins["operator_gevp"] = r.choice(L)
        return {"op": "evp_als", "in": ins, "dest": ctx.dest(a["number_ev"]), "args": a}

    def execute(run, rec, A, g):
        import scikit_tt.solvers.evp as evp
        a = rec["args"]
        _need(_sqop(A["operator"]) and _vec(A["initial_guess"], A["operator"].row_dims)
              and all(_vec(p_, A["operator"].row_dims) for p_ in A.get("previous", []))
              and (A.get("operator_gevp") is None or (_sqop(A["operator_gevp"]) and A["operator_gevp"].row_dims == A["operator"].row_dims)))
        return evp.als(A["operator"], A["initial_guess"], previous=list(A.get("previous", [])), shift=a.get("shift", 0),
                       operator_gevp=A.get("operator_gevp"), number_ev=a["number_ev"], repeats=a["repeats"],
                       conv_eps=a["conv_eps"], solver=a["solver"], sigma=a["sigma"], real=a["real"])
    return choose, execute


@op("evp_power", roles=("operator", "initial_guess", "operator_gevp"), group="solver")
def _power():
    def choose(ctx):
        t = _op_vec_vec(ctx)
        if t is None:
            return None
        o, x, b = t
        r = ctx.rnd
        ins = {"operator": o, "initial_guess": x}
        if r.random() < 0.25:
            L = [i for i in ctx.live() if ctx.meta(i)[1] == ctx.meta(o)[1] and ctx.meta(i)[2] == ctx.meta(o)[2] and closed(ctx.meta(i))]
            ins["operator_gevp"] = r.choice(L)
        return {"op": "evp_power", "in": ins, "dest": ctx.dest(1), "args": {"repeats": r.choice((1, 1, 2, 3)), "sigma": r.choice((0.999, 0.3))}}

    def execute(run, rec, A, g):
        import scikit_tt.solvers.evp as evp
        a = rec["args"]
        _need(_sqop(A["operator"]) and _vec(A["initial_guess"], A["operator"].row_dims)
              and (A.get("operator_gevp") is None or (_sqop(A["operator_gevp"]) and A["operator_gevp"].row_dims == A["operator"].row_dims)))
        return evp.power_method(A["operator"], A["initial_guess"], operator_gevp=A.get("operator_gevp"), repeats=a["repeats"], sigma=a["sigma"])
    return choose, execute


def _steps(r):
    # degenerate counts (no step at all) are part of the input space: the trajectory is then just [initial_value]
    return [round(r.uniform(0.01, 0.2), 3) for _ in range(r.choice((0, 1, 1, 2, 3)))]


@op("ode_onestep", roles=("operator", "initial_value", "initial_guess", "previous_value", "op_hod"), group="ode", weight=3.0, returns_initial=True)
def _ode_onestep():
    def choose(ctx):
        t = _op_vec_vec(ctx)
        if t is None:
            return None
        o, x, gss = t
        r = ctx.rnd
        which = r.choice(("explicit_euler", "hod", "implicit_euler", "trapezoidal_rule", "adaptive_step_size"))
        a = {"which": which, "normalize": r.choice((0, 1, 2)), "progress": r.random() < 0.4}
        ins = {"operator": o, "initial_value": x}
        if which in ("explicit_euler", "implicit_euler", "trapezoidal_rule"):
            a["step_sizes"] = _steps(r)
        if which in ("explicit_euler", "hod"):
            a["threshold"] = r.choice((1e-12, 1e-8))
            a["max_rank"] = r.choice((50, 3, 1))
        if which == "hod":
            a["step_size"] = round(r.uniform(0.01, 0.2), 3)
            a["number_of_steps"] = r.choice((0, 1, 2, 3))
            a["order"] = r.choice((2, 4, 3))
            if r.random() < 0.5:
                ins["previous_value"] = gss
            if r.random() < 0.25:
                ins["op_hod"] = o
        if which in ("implicit_euler", "trapezoidal_rule"):
            ins["initial_guess"] = gss
            a["repeats"] = r.choice((0, 1, 1, 2))
            a["tt_solver"] = r.choice(("als", "mals"))
            a["micro_solver"] = r.choice(("solve", "lu"))
            a["threshold"] = 1e-12
            a["max_rank"] = r.choice((None, 3))
        if which == "adaptive_step_size":
            ins["initial_guess"] = gss
            a["time_end"] = 0.05
            a["second_method"] = r.choice(("two_step_Euler", "trapezoidal_rule"))
            a["solver"] = r.choice(("solve", "lu"))
        n_out = 4
        return {"op": "ode_onestep", "in": ins, "dest": ctx.dest(n_out), "args": a}

    def execute(run, rec, A, g):
        import scikit_tt.solvers.ode as ode
        a = rec["args"]
        w = a["which"]
        dims = A["operator"].row_dims
        _need(_sqop(A["operator"]) and _vec(A["initial_value"], dims) and all(
            A.get(k_) is None or _vec(A[k_], dims) for k_ in ("initial_guess", "previous_value")) and (
            A.get("op_hod") is None or (_sqop(A["op_hod"]) and A["op_hod"].row_dims == dims)))
        if w == "explicit_euler":
            return ode.explicit_euler(A["operator"], A["initial_value"], a["step_sizes"], threshold=a["threshold"],
                                      max_rank=a["max_rank"], normalize=a["normalize"], progress=a["progress"])
        if w == "hod":
            return ode.hod(A["operator"], A["initial_value"], a["step_size"], a["number_of_steps"], order=a["order"],
                           previous_value=A.get("previous_value"), op_hod=A.get("op_hod"), threshold=a["threshold"],
                           max_rank=a["max_rank"], normalize=a["normalize"], progress=a["progress"])
        if w == "implicit_euler":
            return ode.implicit_euler(A["operator"], A["initial_value"], A["initial_guess"], a["step_sizes"], repeats=a["repeats"],
                                      tt_solver=a["tt_solver"], threshold=a["threshold"], max_rank=_mr(a.get("max_rank")),
                                      micro_solver=a["micro_solver"], normalize=a["normalize"], progress=a["progress"])
        if w == "trapezoidal_rule":
            return ode.trapezoidal_rule(A["operator"], A["initial_value"], A["initial_guess"], a["step_sizes"], repeats=a["repeats"],
                                        tt_solver=a["tt_solver"], threshold=a["threshold"], max_rank=_mr(a.get("max_rank")),
                                        micro_solver=a["micro_solver"], normalize=a["normalize"], progress=a["progress"])
        return ode.adaptive_step_size(A["operator"], A["initial_value"], A["initial_guess"], a["time_end"], step_size_first=0.01,
                                      solver=a["solver"], step_size_min=1e-3, second_method=a["second_method"],
                                      normalize=a["normalize"], progress=a["progress"])
    return choose, execute


@op("ode_errors", roles=("operator", "solution"), group="ode", weight=0.7)
def _ode_errors():
    def choose(ctx):
        t = _op_vec_vec(ctx)
        if t is None:
            return None
        o, x, y = t
        dims = ctx.meta(o)[1]
        vs = [i for i in ctx.live() if is_vec(ctx.meta(i)) and ctx.meta(i)[1] == dims and closed(ctx.meta(i))]
        n = ctx.rnd.randint(2, 3)
        sol = [ctx.rnd.choice(vs) for _ in range(n)]
        return {"op": "ode_errors", "in": {"operator": o, "solution": sol}, "dest": [],
                "args": {"which": ctx.rnd.choice(("expl", "impl", "trap")), "step_sizes": [0.1] * (n - 1)}}

    def execute(run, rec, A, g):
        import scikit_tt.solvers.ode as ode
        _need(_sqop(A["operator"]) and all(_vec(x_, A["operator"].row_dims) for x_ in A["solution"]))
        f = {"expl": ode.errors_expl_euler, "impl": ode.errors_impl_euler, "trap": ode.errors_trapezoidal}[rec["args"]["which"]]
        return f(A["operator"], list(A["solution"]), rec["args"]["step_sizes"])
    return choose, execute


@op("ode_tdvp", roles=("operator", "initial_value"), group="ode", weight=2.0, returns_initial=True)
def _ode_tdvp():
    def choose(ctx):
        t = _op_vec_vec(ctx)
        if t is None:
            return None
        o, x, _ = t
        r = ctx.rnd
        a = {"which": r.choice(("tdvp1site", "tdvp2site", "tdvp", "krylov")), "step_size": round(r.uniform(0.01, 0.2), 3),
             "number_of_steps": r.choice((0, 1, 1, 2)), "normalize": r.choice((0, 0, 2)), "threshold": r.choice((1e-12, 1e-6)),
             "max_rank": r.choice((50, 3, 1)), "dimension": r.randint(2, 3)}
        return {"op": "ode_tdvp", "in": {"operator": o, "initial_value": x}, "dest": ctx.dest(3), "args": a}

    def execute(run, rec, A, g):
        import scikit_tt.solvers.ode as ode
        a = rec["args"]
        w = a["which"]
        _need(_sqop(A["operator"]) and _vec(A["initial_value"], A["operator"].row_dims))
        if w == "tdvp1site":
            return ode.tdvp1site(A["operator"], A["initial_value"], a["step_size"], a["number_of_steps"], normalize=a["normalize"])
        if w == "tdvp2site":
            return ode.tdvp2site(A["operator"], A["initial_value"], a["step_size"], a["number_of_steps"], threshold=a["threshold"],
                                 max_rank=a["max_rank"], normalize=a["normalize"])
        if w == "tdvp":
            return ode.tdvp(A["operator"], A["initial_value"], a["step_size"], a["number_of_steps"], threshold=a["threshold"],
                            max_rank=a["max_rank"], normalize=a["normalize"])
        return ode.krylov(A["operator"], A["initial_value"], a["dimension"], a["step_size"], threshold=a["threshold"],
                          max_rank=a["max_rank"], normalize=a["normalize"])
    return choose, execute


@op("ode_splitting", roles=("initial_value",), group="ode", weight=1.5, returns_initial=True)
def _ode_splitting():
    def choose(ctx):
        a = ctx.pick(lambda m: is_vec(m) and closed(m) and m[0] >= 2 and len(set(m[1])) == 1 and max(m[3]) <= 6 and
                     max(m[1]) <= 4 and m[0] <= 6)
        if a is None or not ctx.tame(a):
            return None
        r = ctx.rnd
        args = {"which": r.choice(("lie", "strang", "yoshida", "kahan_li")), "hom": r.random() < 0.5, "rank": r.randint(1, 2),
                "step_size": round(r.uniform(0.01, 0.1), 3), "number_of_steps": r.choice((0, 1, 1, 2)), "threshold": r.choice((1e-12, 1e-6)),
                "max_rank": r.choice((50, 2)), "normalize": r.choice((0, 1, 2)), "cplx": r.random() < 0.3}
        return {"op": "ode_splitting", "in": {"initial_value": a}, "dest": ctx.dest(3), "args": args}

    def execute(run, rec, A, g):
        import scikit_tt.solvers.ode as ode
        a = rec["args"]
        x = A["initial_value"]
        m = x.row_dims[0]
        d = x.order
        _need(_vec(x) and len(set(x.row_dims)) == 1 and d >= 2 and m <= 4)

        def mat(*shape):
            z = 0.3 * g.standard_normal(shape)
            return z + 0.3j * g.standard_normal(shape) if a["cplx"] else z
        if a["hom"]:
            S, L, I, Mm = mat(m, m), mat(m, m, a["rank"]), np.eye(m), mat(a["rank"], m, m)
            if a["rank"] == 1 and g.random() < 0.5:
                L, Mm = L[:, :, 0], Mm[0]
        else:
            S = [mat(m, m) for _ in range(d)]
            L = [mat(m, m, a["rank"]) for _ in range(d)]
            I = [np.eye(m) for _ in range(d)]
            Mm = [mat(a["rank"], m, m) for _ in range(d)]
        f = {"lie": ode.lie_splitting, "strang": ode.strang_splitting, "yoshida": ode.yoshida_splitting,
             "kahan_li": ode.kahan_li_splitting}[a["which"]]
        return f(S, L, I, Mm, x, a["step_size"], a["number_of_steps"], threshold=a["threshold"], max_rank=a["max_rank"],
                 normalize=a["normalize"])
    return choose, execute


@op("ode_tjm", roles=("hamiltonian", "state"), group="ode", weight=1.0)
def _ode_tjm():
    def choose(ctx):
        t = _op_vec_vec(ctx)
        if t is None:
            return None
        o, x, _ = t
        if any(v != 2 for v in ctx.meta(o)[1]):
            return None
        r = ctx.rnd
        a = {"which": r.choice(("tjm", "jump")), "time_step": round(r.uniform(0.01, 0.3), 3), "number_of_steps": r.randint(1, 3),
             "gamma": r.choice((0.1, 1.0, 3.0)), "twod": r.random() < 0.4}
        if r.random() < 0.5:
            # the jump/no-jump decision is a draw from numpy.random.rand: the simulator decides it (0.0: the jump
            # branch is taken whenever any jump has positive probability; just below 1: it never is)
            a["epsilon"] = r.choice((0.0, 0.0, 1.0 - 2.0 ** -53))
        return {"op": "ode_tjm", "in": {"hamiltonian": o, "state": x}, "dest": ctx.dest(3), "args": a}

    def execute(run, rec, A, g):
        import scikit_tt.solvers.ode as ode
        a = rec["args"]
        h, x = A["hamiltonian"], A["state"]
        _need(_sqop(h) and all(v == 2 for v in h.row_dims) and _vec(x, h.row_dims))
        sm = np.array([[0.0, 1.0], [0.0, 0.0]])
        sz = np.array([[1.0, 0.0], [0.0, -1.0]])
        jl, pl = [sm, sz], [a["gamma"], 0.5 * a["gamma"]]
        if a["twod"]:
            jl = [[sm, sz] for _ in range(h.order)]
            pl = [[a["gamma"], 0.5 * a["gamma"]] for _ in range(h.order)]
        if a.get("epsilon") is not None:
            eps = float(a["epsilon"])
            run.seams.rng_plan = lambda shape: eps if tuple(shape) == () else env.REAL.rand(*shape)
            run.probes["tjm_jump_decision_served_by_simulator"] += 1
        try:
            if a["which"] == "tjm":
                return ode.tjm(h, jl, pl, x, a["time_step"], a["number_of_steps"])
            return ode.tjm_jump_process_tdvp(h, x, jl, pl, a["time_step"])
        finally:
            run.seams.rng_plan = None
    return choose, execute


@op("tdmd", roles=("x", "y"), group="data", weight=1.5)
def _tdmd():
    def choose(ctx):
        p = _pairs(ctx, lambda a, b: is_vec(a) and is_vec(b) and a[1] == b[1] and a[0] >= 2 and closed(a) and closed(b))
        if not p:
            return None
        a, b = ctx.rnd.choice(p)
        r = ctx.rnd
        return {"op": "tdmd", "in": {"x": a, "y": b}, "dest": ctx.dest(1),
                "args": {"which": r.choice(("exact", "standard")), "threshold": r.choice((0, 1e-10, 1e-3)),
                         "ortho_l": r.random() < 0.8, "ortho_r": r.random() < 0.8}}

    def execute(run, rec, A, g):
        import scikit_tt.data_driven.tdmd as tdmd
        a = rec["args"]
        _need(_vec(A["x"]) and _vec(A["y"], A["x"].row_dims) and A["x"].order >= 2)
        f = tdmd.tdmd_exact if a["which"] == "exact" else tdmd.tdmd_standard
        return f(A["x"], A["y"], threshold=a["threshold"], ortho_l=a["ortho_l"], ortho_r=a["ortho_r"])
    return choose, execute



# ---------------------------------------------------------------- data-driven / model routines (O3 on every returned TT;
# O1 for the TT arguments of arr and tdmd)
def _basis_list(tdt, spec):
    """spec: list over modes of lists of [family, index, param]; returns transform.Function objects."""
    fam = {"const": lambda i, p: tdt.ConstantFunction(i), "id": lambda i, p: tdt.Identity(i),
           "mono": lambda i, p: tdt.Monomial(i, int(p)), "sin": lambda i, p: tdt.Sin(i, float(p)),
           "cos": lambda i, p: tdt.Cos(i, float(p)), "leg": lambda i, p: tdt.Legendre(i, int(p)),
           "gauss": lambda i, p: tdt.GaussFunction(i, 0.0, float(p))}
    return [[fam[f](i, p) for f, i, p in mode] for mode in spec]


def _rand_basis(r, d, modes, sizes):
    out = []
    for k in range(modes):
        n = sizes[k]
        mode = [["const", 0, 0]] if r.random() < 0.6 else []
        while len(mode) < n:
            f = r.choice(("id", "mono", "sin", "cos", "leg", "gauss"))
            prm = {"id": 0, "mono": r.randint(2, 3), "sin": r.choice((1.0, 2.0)), "cos": r.choice((1.0, 0.5)),
                   "leg": r.randint(1, 3), "gauss": r.choice((0.5, 1.0))}[f]
            mode.append([f, r.randrange(d), prm])
        out.append(mode[:n])
    return out


_SCALAR_FUNS = {"one": lambda t: 1, "id": lambda t: t, "sq": lambda t: t ** 2, "cube": lambda t: t ** 3,
                "sin": lambda t: np.sin(t), "cos": lambda t: np.cos(t)}


@op("dd_transform", group="data", weight=2.0)
def _dd_transform():
    def choose(ctx):
        r = ctx.rnd
        d = r.randint(1, 3)
        m = r.randint(1, 6)
        which = r.choice(("basis_decomposition", "coordinate_major", "function_major", "hocur", "mandy_cm", "mandy_fm"))
        a = {"which": which, "d": d, "m": m}
        if which in ("basis_decomposition", "hocur"):
            modes = r.randint(1, 4)
            a["basis"] = _rand_basis(r, d, modes, [r.randint(1, 3) for _ in range(modes)])
            if which == "hocur":
                a["ranks"] = r.choice((1, 2, 4, 8))
                a["repeats"] = r.randint(1, 2)
                a["multiplier"] = r.choice((2, 10))
                a["progress"] = r.random() < 0.3
            elif r.random() < 0.2:
                a["single_core"] = r.randrange(modes)
        else:
            a["phi"] = [r.choice(sorted(_SCALAR_FUNS)) for _ in range(r.randint(1, 3))]
            a["add_one"] = r.random() < 0.5
            a["threshold"] = r.choice((0.0, 1e-10, 1e-3))
            if which.startswith("mandy") and r.random() < 0.15:
                a["y_rows_off"] = True
            if which in ("coordinate_major", "function_major") and r.random() < 0.2:
                a["single_core"] = 0
        return {"op": "dd_transform", "in": {}, "dest": ctx.dest(1), "args": a}

    def execute(run, rec, A, g):
        import scikit_tt.data_driven.transform as tdt
        import scikit_tt.data_driven.regression as reg
        a = rec["args"]
        x = g.uniform(-1, 1, size=(a["d"], a["m"]))
        w = a["which"]
        if w == "basis_decomposition":
            return tdt.basis_decomposition(x, _basis_list(tdt, a["basis"]), single_core=a.get("single_core"))
        if w == "hocur":
            return tdt.hocur(x, _basis_list(tdt, a["basis"]), a["ranks"], repeats=a["repeats"], multiplier=a["multiplier"],
                             progress=a["progress"])
        phi = [_SCALAR_FUNS[n] for n in a["phi"]]
        if w == "coordinate_major":
            return tdt.coordinate_major(x, phi, single_core=a.get("single_core"))
        if w == "function_major":
            return tdt.function_major(x, phi, add_one=a["add_one"], single_core=a.get("single_core"))
        y = g.uniform(-1, 1, size=(a["d"] + (1 if a.get("y_rows_off") else 0), a["m"]))   # y_rows_off: inadmissible y (must raise)
        if w == "mandy_cm":
            return reg.mandy_cm(x, y, phi, threshold=a["threshold"])
        return reg.mandy_fm(x, y, phi, threshold=a["threshold"], add_one=a["add_one"])
    return choose, execute


@op("dd_arr", roles=("initial_guess",), group="data", weight=1.5)
def _dd_arr():
    def choose(ctx):
        v = ctx.pick(lambda m: is_vec(m) and closed(m) and m[0] >= 1 and max(m[1]) <= 3 and max(m[3]) <= 4)
        if v is None or not ctx.tame(v):
            return None
        r = ctx.rnd
        m_ = ctx.meta(v)
        d = r.randint(1, 3)
        a = {"d": d, "m": r.randint(2, 6), "k": r.randint(1, 2), "basis": _rand_basis(r, d, m_[0], list(m_[1])),
             "repeats": r.choice((0, 1, 1, 2)), "rcond": r.choice((1e-2, 1e-8)), "progress": r.random() < 0.3}
        return {"op": "dd_arr", "in": {"initial_guess": v}, "dest": ctx.dest(a["k"]), "args": a}

    def execute(run, rec, A, g):
        import scikit_tt.data_driven.transform as tdt
        import scikit_tt.data_driven.regression as reg
        a = rec["args"]
        t = A["initial_guess"]
        _need(_vec(t) and [len(mo) for mo in a["basis"]] == list(t.row_dims))
        x = g.uniform(-1, 1, size=(a["d"], a["m"]))
        y = g.uniform(-1, 1, size=(a["k"], a["m"]))
        return reg.arr(x, y, _basis_list(tdt, a["basis"]), t, repeats=a["repeats"], rcond=a["rcond"], progress=a["progress"])
    return choose, execute


@op("dd_tedmd", group="data", weight=1.5)
def _dd_tedmd():
    def choose(ctx):
        r = ctx.rnd
        d = r.randint(1, 2)
        modes = r.randint(1, 3)
        a = {"which": r.choice(("hosvd", "hocur")), "d": d, "m": r.randint(3, 8),
             "basis": _rand_basis(r, d, modes, [r.randint(2, 3) for _ in range(modes)]), "sets": r.choice((1, 1, 2)),
             "threshold": r.choice((1e-2, 1e-8)), "max_rank": r.choice((None, 3)), "progress": r.random() < 0.2,
             "ef_tf": r.random() < 0.2, "st_tf": r.random() < 0.2}
        return {"op": "dd_tedmd", "in": {}, "dest": ctx.dest(2), "args": a}

    def execute(run, rec, A, g):
        import scikit_tt.data_driven.transform as tdt
        import scikit_tt.data_driven.tedmd as tedmd
        a = rec["args"]
        m = a["m"]
        x = g.uniform(-1, 1, size=(a["d"], m))
        xi, yi = np.arange(0, m - 1), np.arange(1, m)
        if a["sets"] == 2:
            xi, yi = [np.arange(0, m - 1), np.arange(0, m - 2)], [np.arange(1, m), np.arange(2, m)]
        b = _basis_list(tdt, a["basis"])
        if a["which"] == "hosvd":
            return tedmd.amuset_hosvd(x, xi, yi, b, threshold=a["threshold"], max_rank=_mr(a["max_rank"]), progress=a["progress"],
                                      ef_tf=a["ef_tf"], st_tf=a["st_tf"])
        return tedmd.amuset_hocur(x, xi, yi, b, max_rank=(a["max_rank"] or 1000), multiplier=2, progress=a["progress"])
    return choose, execute


@op("dd_build", group="data", weight=2.0)
def _dd_build():
    def choose(ctx):
        r = ctx.rnd
        which = r.choice(("ulam_2d", "ulam_3d", "slim_mme", "slim_mme_hom", "model", "model"))
        a = {"which": which}
        if which.startswith("ulam"):
            a["states"] = [r.randint(1, 4) for _ in range(2 if which == "ulam_2d" else 3)]
            a["n"] = r.randint(1, 12)
            a["simulations"] = r.randint(1, 5)
        elif which.startswith("slim"):
            order = r.randint(2, 4)
            a["state_space"] = [r.randint(2, 3)] * order if which == "slim_mme_hom" or r.random() < 0.5 else [r.randint(2, 3) for _ in range(order)]
            a["cyclic"] = r.random() < 0.5
            a["threshold"] = r.choice((0, 1e-12))
            a["n_single"] = r.randint(0, 2)
            a["n_two"] = r.randint(0, 3)
        else:
            a["model"] = r.choice(("ising", "qfa", "qfan", "simon", "qft", "iqft", "shor", "exciton_chain", "co_oxidation",
                                   "fpu_coefficients", "kuramoto_coefficients", "signaling_cascade", "toll_station",
                                   "two_step_destruction"))
            a["n"] = r.randint(0, 4)      # size parameter n+1 = 1..5: the smallest sizes are where first/last-core special cases meet
            a["flag"] = r.random() < 0.5
        return {"op": "dd_build", "in": {}, "dest": ctx.dest(2), "args": a}

    def execute(run, rec, A, g):
        a = rec["args"]
        w = a["which"]
        if w.startswith("ulam"):
            import scikit_tt.data_driven.ulam as ulam
            st = a["states"]
            k = len(st)
            tr = np.vstack([g.integers(1, st[i % k] + 1, size=a["n"]) for i in range(2 * k)])
            return (ulam.ulam_2d if k == 2 else ulam.ulam_3d)(tr, st, a["simulations"])
        if w.startswith("slim"):
            import scikit_tt.slim as slim
            ss = a["state_space"]
            order = len(ss)

            def single(i):
                return [[int(g.integers(0, ss[i])), int(g.integers(0, ss[i])), float(g.uniform(0.1, 2))] for _ in range(a["n_single"])]

            def two(i):
                j = (i + 1) % order
                return [[int(g.integers(0, ss[i])), int(g.integers(0, ss[i])), int(g.integers(0, ss[j])), int(g.integers(0, ss[j])),
                         float(g.uniform(0.1, 2))] for _ in range(a["n_two"])]
            if w == "slim_mme_hom":
                return slim.slim_mme_hom(ss, single(0), two(0), cyclic=a["cyclic"], threshold=a["threshold"])
            nb = order if a["cyclic"] else order - 1
            return slim.slim_mme(ss, [single(i) for i in range(order)], [two(i) for i in range(nb)], threshold=a["threshold"])
        import scikit_tt.models as mdl
        n = a["n"]
        mname = a["model"]
        if mname == "ising":
            return mdl.ising(n + 1, 1.0, 0.5)
        if mname == "qfa":
            return mdl.qfa()
        if mname == "qfan":
            return mdl.qfan(n)
        if mname == "simon":
            return mdl.simon()
        if mname == "qft":
            return mdl.qft(n + 1)
        if mname == "iqft":
            return mdl.iqft(n + 1)
        if mname == "shor":
            return mdl.shor([2, 4, 7, 8, 11, 13][n % 6])
        if mname == "exciton_chain":
            return mdl.exciton_chain(n + 1, 0.1, 0.2)
        if mname == "co_oxidation":
            return mdl.co_oxidation(n + 1, 1e2, cyclic=a["flag"])
        if mname == "fpu_coefficients":
            return mdl.fpu_coefficients(n + 1)
        if mname == "kuramoto_coefficients":
            return mdl.kuramoto_coefficients(n + 1, np.linspace(-1, 1, n + 1))
        if mname == "signaling_cascade":
            return mdl.signaling_cascade(n + 1)
        if mname == "toll_station":
            return mdl.toll_station(n + 1, n + 1)
        return mdl.two_step_destruction(1.0, 2.0, 1.0, n + 2)
    return choose, execute


@op("qc_sampling", roles=("quantum_state",), group="data", weight=1.0)
def _qc_sampling():
    """quantum_computation.sampling takes a TT argument too: whatever it returns, the state must be left alone (that
    its output is the Born distribution is C20's business and needs a normalised right-orthonormal state)."""
    def choose(ctx):
        a = ctx.pick(lambda m: is_vec(m) and closed(m) and all(x == 2 for x in m[1]) and m[0] <= 8)
        if a is None or not ctx.tame(a):
            return None
        n = ctx.meta(a)[0]
        k = ctx.rnd.randint(1, n)
        return {"op": "qc_sampling", "in": {"quantum_state": a}, "dest": [],
                "args": {"measure": sorted(ctx.rnd.sample(range(n), k)), "N": ctx.rnd.choice((1, 7, 64))}}

    def execute(run, rec, A, g):
        import scikit_tt.quantum_computation as qc
        t = A["quantum_state"]
        a = rec["args"]
        _need(_vec(t) and all(x == 2 for x in t.row_dims) and max(a["measure"]) < t.order)
        return qc.sampling(t, list(a["measure"]), a["N"])
    return choose, execute


GROUPS = ("ctor", "algebra", "inplace", "solver", "ode", "data")


# ====================================================================== generation
def swarm_config(seed, faults):
    rnd = Streams(seed).py("config")
    deep = os.environ.get("SIMTT_TIER") == "thorough"   # deeper bounds in the thorough tier (set by the runner)
    d = rnd.choice((1, 2, 2, 3, 3, 3, 4, 5) if deep else (1, 2, 2, 3, 3, 3, 4))
    sizes = rnd.choice(((1, 2, 3), (2, 3), (1, 2), (2,), (2, 2, 4), (1, 1, 2)) + (((2, 3, 5), (1, 4)) if deep else ()))
    dims = [rnd.choice(sizes) for _ in range(d)]
    if rnd.random() < 0.25:
        dims = [dims[0]] * d
    groups = {g: 1.0 for g in GROUPS}
    for g in GROUPS:
        if rnd.random() < 0.3:
            groups[g] = rnd.choice((0.0, 0.2, 3.0))
    groups["inplace"] = max(groups["inplace"], 0.5)
    return {
        "dims": dims,
        "dims_ext": [rnd.choice(sizes) for _ in range(rnd.randint(0, 2))] + dims + [rnd.choice(sizes) for _ in range(rnd.randint(0, 2))],
        "window_p": rnd.choice((0.0, 0.3, 0.6)),
        "max_rank": rnd.choice((1, 2, 3, 4)),
        "p_one": rnd.choice((0.2, 0.4, 0.7)),
        "layouts": rnd.choice((["C"], ["C"], ["C"], ["C", "T"], list(gen.LAYOUTS), ["C", "F", "moveaxis", "moveaxis_r"])),
        "cplx_p": rnd.choice((0.0, 0.0, 0.3, 1.0)),
        "length": rnd.choice((3, 5, 8, 12, 20, 40, 70) if deep else (3, 5, 8, 12, 20, 40)),
        "groups": groups,
        "directed_p": rnd.choice((0.3, 0.5, 0.8, 0.9)),
        "repeat_p": rnd.choice((0.0, 0.1, 0.1, 0.3)),
        # swarm focus: in 40 % of the runs one randomly chosen operation is made ten times as likely, so that rare
        # operations (and rare *pairs* of identical calls to them) get deep histories of their own
        "focus": (rnd.choice(sorted(OPS)) if rnd.random() < 0.4 else None),
        "fault_rate": (rnd.choice((0.05, 0.15, 0.4)) if faults else 0.0),
        "fault_kinds": (rnd.choice((["F-gesdd"], ["F-gesdd", "F-kernel"], ["F-gesdd", "F-kernel", "F-stdout"], ["F-kernel"], ["F-stdout"]))
                        if faults else []),
        "clock_jumps": faults and rnd.random() < 0.5,
    }


def _new_record(ctx, kind=None):
    rnd, cfg = ctx.rnd, ctx.cfg
    dims = cfg["dims"]
    if kind is None and rnd.random() < cfg.get("window_p", 0.0):
        # objects of other orders over a window of the extended dimension family: gives tensordot / concatenate
        # operands of different lengths whose boundary modes still line up
        ext = cfg["dims_ext"]
        n = rnd.randint(1, len(ext))
        st = rnd.randint(0, len(ext) - n)
        dims = ext[st:st + n]
    d = len(dims)
    kind = kind or rnd.choice(("vec", "vec", "op", "gen"))
    rows = list(dims)
    if kind == "vec":
        cols = [1] * d
    elif kind == "op":
        cols = list(dims)
    else:
        cols = [rnd.choice((1, 2, 3)) for _ in range(d)]
    ranks = gen.rand_ranks(rnd, rows, cols, cfg["max_rank"], p_one=cfg["p_one"])
    spec = {"rows": rows, "cols": cols, "ranks": ranks, "dtype": "c16" if rnd.random() < cfg["cplx_p"] else "f8",
            "layout": [rnd.choice(cfg["layouts"]) for _ in range(d)],
            "vals": [rnd.choice(("normal", "normal", "ints", "deficient")) for _ in range(d)],
            "int_storage": rnd.random() < 0.15,
            "sub_seed": rnd.getrandbits(48)}
    if kind == "op":
        spec["neardiag"] = True
    return {"op": "new", "dest": ctx.dest(1), "spec": spec}


def _directed(ctx):
    """An in-place op whose sweep starts at a core shared with another live object (DESIGN 3.3)."""
    run, rnd = ctx.run, ctx.rnd
    cands = []
    for i in run.live():
        if not any(i in k for k in run.edges):
            continue
        m = run.meta(i)
        d = m[0]
        t = run.slots[i].tt
        for ci in run.shared_cores(i):
            c = t.cores[ci]
            r, mm, nn, r2 = c.shape
            fl = c.reshape(r * mm * nn, r2).flags.f_contiguous and np.shares_memory(c.reshape(r * mm * nn, r2), c)
            fr = c.reshape(r, mm * nn * r2).flags.f_contiguous and np.shares_memory(c.reshape(r, mm * nn * r2), c)
            if ci <= d - 2:
                cands.append((3 if fl else 1, {"op": "ortho_left", "in": {"self": i}, "dest": [],
                                               "args": {"start_index": ci, "end_index": rnd.randint(ci, d - 2)}}))
            if ci >= 1:
                cands.append((3 if fr else 1, {"op": "ortho_right", "in": {"self": i}, "dest": [],
                                               "args": {"start_index": ci, "end_index": rnd.randint(1, ci)}}))
            if ci == d - 1 and d >= 2:
                cands.append((3 if fr else 1, {"op": "ortho_right", "in": {"self": i}, "dest": [], "args": {}}))
            if ci == 0 and d >= 2:
                cands.append((3 if fl else 1, {"op": "ortho_left", "in": {"self": i}, "dest": [], "args": {}}))
            if is_vec(m) and d >= 2 and 1 <= ci + 1 <= d - 1:
                # the centre-core gesvd (overwrite_a=True) writes in place exactly when that reshape is an F-contiguous view
                cands.append((18 if fl else 2, {"op": rnd.choice(("svd", "pinv")), "in": {"self": i}, "dest": ctx.dest(2),
                                  "args": {"index": ci + 1, "ortho_l": False, "ortho_r": False, "overwrite": True}}))
        cands.append((1, {"op": "ortho", "in": {"self": i}, "dest": [], "args": {}}))
    if not cands:
        return None
    tot = sum(w for w, _ in cands)
    x = rnd.random() * tot
    for w, rec in cands:
        x -= w
        if x <= 0:
            return rec
    return cands[-1][1]


def _faults(rnd, cfg):
    if not cfg["fault_rate"] or rnd.random() >= cfg["fault_rate"]:
        return []
    kind = rnd.choice(cfg["fault_kinds"])
    if kind == "F-gesdd":
        f = {"kind": "F-gesdd", "nth": rnd.choice((1, 1, 2, 3, 5))}
        if rnd.random() < 0.2:
            f["double"] = True
        return [f]
    if kind == "F-kernel":
        if rnd.random() < 0.7:
            # the k-th kernel call of the op, whatever it is: lands inside multi-call solvers at arbitrary depth
            return [{"kind": "F-any", "nth": rnd.choice((1, 1, 2, 2, 3, 4, 5, 6, 8, 10, 13, 17, 22, 30))}]
        return [{"kind": "F-kernel", "kernel": rnd.choice(FAULTABLE), "nth": rnd.choice((1, 1, 2, 3, 6))}]
    return [{"kind": "F-stdout", "nth": rnd.choice((1, 2, 3, 5, 7, 9, 11, 14, 19, 25)), "errno": rnd.choice(("EPIPE", "ENOSPC"))}]


def _choose(ctx):
    rnd, cfg, run = ctx.rnd, ctx.cfg, ctx.run
    live = run.live()
    if len(live) < 2 or (len(live) < NSLOTS - 1 and rnd.random() < 0.15):
        kinds = [run.meta(i) for i in live]
        have_vec = any(is_vec(m) for m in kinds)
        have_op = any(is_square(m) and not is_vec(m) for m in kinds)
        kind = None
        if not have_vec:
            kind = "vec"
        elif not have_op and rnd.random() < 0.7:
            kind = "op"
        return _new_record(ctx, kind)
    if run.edges and rnd.random() < cfg["directed_p"]:
        rec = _directed(ctx)
        if rec is not None:
            run.probes["directed_choice"] += 1
            if cfg["fault_rate"] and "F-gesdd" in cfg["fault_kinds"] and rec["op"].startswith("ortho") and rnd.random() < 0.6:
                # the retry (gesvd, overwrite_a=True) is the one place where a sweep still writes in place
                rec["faults"] = [{"kind": "F-gesdd", "nth": 1}]
            return rec
    if ctx.history and rnd.random() < cfg.get("repeat_p", 0.0):
        # the same call once more, with identical arguments (same sub-seed => same generated data): results of two
        # identical calls must be independent objects (caches, memoised cores, module-level state)
        # builders / constructors without TT inputs are where caches hide: prefer repeating those
        hw = [5.0 if not (h[0].get("in") or {}) else 1.0 for h in ctx.history]
        prev, serials = rnd.choices(ctx.history, hw)[0]
        spec = OPS.get(prev["op"])
        if spec is not None and not (spec["inplace"](prev) if callable(spec["inplace"]) else spec["inplace"]) \
                and serials == ctx.serials(prev):
            rec = copy.deepcopy(prev)
            rec.pop("faults", None)
            rec["dest"] = ctx.dest(len(prev.get("dest", ())))
            rec["repeat"] = True
            run.probes["repeated_call"] += 1
            return rec
    names = list(OPS)
    weights = [OPS[n]["weight"] * cfg["groups"].get(OPS[n]["group"], 1.0) * (10.0 if n == cfg.get("focus") else 1.0)
               for n in names]
    if cfg.get("focus") and not any(weights):
        weights = [1.0] * len(names)
    for _ in range(12):
        n = rnd.choices(names, weights)[0]
        rec = OPS[n]["choose"](ctx)
        if rec is not None:
            return rec
    return _new_record(ctx)


def generate_and_run(seed, faults, keep_events=False):
    cfg = swarm_config(seed, faults)
    rnd = Streams(seed).py("workload")
    run = Run(cfg, keep_events=keep_events)
    ctx = Ctx(rnd, run, cfg)
    records = []
    viol = None
    run.seams.install()
    try:
        for _ in range(cfg["length"]):
            rec = _choose(ctx)
            fresh = rnd.getrandbits(32)
            rec.setdefault("sub_seed", fresh)
            if rec["op"] != "new":
                fl = _faults(rnd, cfg)
                if cfg["fault_rate"] and "F-gesdd" in cfg["fault_kinds"] and rec["op"] == "read" and \
                        rec["args"].get("what") == "norm2" and rnd.random() < 0.5:
                    # norm() sweeps a private copy: only the retry path could ever write into the caller's cores
                    fl = [{"kind": "F-gesdd", "nth": rnd.choice((1, 1, 2))}]
                if fl and "faults" not in rec:
                    rec["faults"] = fl
                if cfg.get("clock_jumps"):
                    rec["clock_seed"] = rnd.getrandbits(32)
            records.append(rec)
            if rec["op"] != "new":
                ctx.history.append((rec, ctx.serials(rec)))
            run.step(rec)
    except Violation as v:
        viol = v
    finally:
        run.seams.uninstall()
    return run, records, viol, cfg


def replay(records, keep_events=False, clock_seed=None):
    run = Run({}, keep_events=keep_events)
    viol = None
    run.seams.install()
    try:
        for rec in records:
            run.step(rec)
    except Violation as v:
        viol = v
    finally:
        run.seams.uninstall()
    return run, viol


# ====================================================================== runner interface
NAME = "pool"
FORK_PER_RUN = True   # every history starts in a process image in which scikit_tt has never run (runner.forked_call)
RULE = ("one history = 3-40 seeded API calls over a pool of up to 6 live tensor trains (results are fed back as operands; "
        "documented in-place sweeps and overwrite=True variants are interleaved; with probability directed_p the scheduler "
        "picks an in-place op whose sweep starts at a core that is shared with another live object); per-run swarm "
        "configuration (order 1-4, mode sizes 1-4, rank palette with many rank-1 bonds, real/complex, seven memory layouts, "
        "op-group weights, fault kinds and rates). After EVERY call all live objects are compared with their dense snapshots. "
        "A history is NON-TRIVIAL if an in-place op ran on an object that shared a buffer with another live object at that "
        "moment, or on an object while an operand it was computed from / a result computed from it was still live, or a "
        "fault fired in it; DISTINCT by (op-name sequence, producers of the sharing edges seen, fault kinds fired).")
COMPONENTS = {
    "real": ["scikit_tt.tensor_train (whole TT API)", "scikit_tt.solvers.sle / evp / ode", "scikit_tt.data_driven.tdmd",
             "scikit_tt.utils (progress output, truncated_svd)", "NumPy", "SciPy/LAPACK/ARPACK behind pass-through kernel wrappers"],
    "stub": ["clock (fake time object with optional jumps)", "stdout (in-memory sink that can fail on its n-th write)",
             "numpy.random legacy stream (re-seeded per op)", "matplotlib (empty module, unused here)"],
}


def simplifier(rec):
    from .minimise import generic_simplifier
    out = generic_simplifier(rec)
    return out


def evidence_extra(total):
    ex = total["extra"]
    return {"op_mix_runs_containing": {k[3:]: v for k, v in sorted(ex.items()) if k.startswith("op:")},
            "ops_that_raised_any_reason": int(ex.get("ops_raised", 0)), "clock_jumps_injected": int(ex.get("clock_jumps", 0))}


def run_one(prop, seed, faults, want_events=False):
    run, records, viol, cfg = generate_and_run(seed, faults, keep_events=want_events)
    key = None
    if run.nontrivial:
        key = H("trace", run.op_names, sorted(run.edge_shapes), sorted(run.seams.fired.items()))
    out = {"ops": run.ops_done, "digest": run.log.digest(), "fired": dict(run.seams.fired), "probes": dict(run.probes),
           "kernel_calls": dict(run.seams.calls), "trace_key": key, "states": [H("st", k) for k in run.state_keys],
           "raised_ok": run.raised_fault, "clock_reads": run.seams.clock.reads, "sim_clock_s": run.seams.clock.now - 1.0e9,
           "records": records, "cfg": cfg, "viol": viol.as_dict() if viol else None,
           "extra": dict(("op:" + n, 1) for n in set(run.op_names))}
    out["extra"]["ops_raised"] = run.raised
    out["extra"]["clock_jumps"] = run.seams.clock.jumps
    if want_events:
        out["events"] = run.log.events
    return out


def replay_records(prop, records, want_events=False):
    run, viol = replay(records, keep_events=want_events)
    out = {"digest": run.log.digest(), "viol": viol.as_dict() if viol else None, "fired": dict(run.seams.fired)}
    if want_events:
        out["events"] = run.log.events
    return out
