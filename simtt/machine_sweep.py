"""Machine B -- C03, C04, C05: histories of in-place sweeps / truncations / global SVDs on ONE live
tensor train, fault-free or with gesdd->gesvd retry faults (DESIGN section 5).

A run is a list of self-contained JSON records.  `Run.step(rec)` executes one record against the
real code with the seams installed and evaluates the oracle with the seams suspended.  The
generator drives the same `Run` object, so generation and replay share every line of execution.
"""
import math
import os

from . import env
import numpy as np

from .core import Streams, EventLog, Violation, arr_digest, H
from .seams import Seams, LinAlgError
from . import model as M
from . import gen

INF = float("inf")
TOL_VALUE = 1e-9      # relative, "up to rounding"
TOL_GRAM = 1e-9
TOL_SAME = 1e-12      # cores outside the requested range
THR_NULL = 1e-11      # threshold that only removes numerically-zero directions


def _mr(x, as_numpy=False):
    """JSON <-> max_rank: None means unbounded; as_numpy hands the library a numpy integer instead of a Python int."""
    if x is None:
        return np.inf
    if isinstance(x, list):
        return [np.inf if v is None else (np.int64(v) if as_numpy else int(v)) for v in x]
    return np.int64(x) if as_numpy else int(x)


def _cap_list(max_rank, order):
    mr = _mr(max_rank)
    if isinstance(mr, list):
        return mr
    return [1] + [mr] * (order - 1) + [1]


class Run(object):
    def __init__(self, prop, cfg=None, keep_events=False):
        self.prop = prop
        self.cfg = cfg or {}
        self.ttm = env.import_sut()
        import scikit_tt.utils as utl
        self.utl = utl
        self.log = EventLog(keep=keep_events)
        self.seams = Seams()
        self.probes = self.seams.probes
        self.t = None            # the live object
        self.snap = None         # model of its value: Snapshot
        self.step_no = 0
        self.ops_done = 0
        self.other_prop_violation = None
        self.raised_ok = 0
        self.pairs = set()       # (op, s, e) partial sweep coverage
        self.state_keys = set()
        self.single = False
        self.tolx = 1.0
        self.floorx = 1.0
        self._cap_lists = {}

    # ------------------------------------------------------------------ helpers
    def _fail(self, prop, op, clause, detail, rec):
        faults = [f.get("kind") for f in rec.get("faults", []) if f.get("done") or True] if rec.get("faults") else []
        fired = [e[2] for e in self._kev if len(e) > 2 and str(e[2]).startswith("F-")]
        sig = "oracle(%s,%s)" % (op, clause)
        if fired:
            sig += "+" + "+".join(sorted(set(fired)))
        detail = dict(detail)
        detail["kernel_events"] = [list(e) for e in self._kev][:12]
        raise Violation(prop, sig, clause, detail, step=self.step_no)

    def _call(self, rec, fn):
        """Run fn() with seams enabled and the record's fault plan; returns (result, exception)."""
        np.random.seed(rec.get("sub_seed", 0) % (2 ** 32))
        self.seams.begin_op(rec.get("faults", ()), stdout=True, seed=rec.get("sub_seed", 0))
        try:
            out, exc = fn(), None
        except Exception as e:  # noqa
            out, exc = None, e
        finally:
            self._kev = self.seams.end_op()
        for e in self._kev:
            self.log.add("k", *e)
        return out, exc

    def _legal_raise(self, exc, rec):
        """Relaxation under faults, deliberately narrow: a call in which an injected kernel failure fired
        may raise LinAlgError (no recovery path, or the retry failed too); it may never return wrong data."""
        if isinstance(exc, LinAlgError) and any(len(e) > 2 and str(e[2]).startswith("F-") for e in self._kev):
            return True
        return False

    def _resnap(self):
        if any(int(r) == 0 for r in self.t.ranks):
            # a rank-0 bond: the legal (if useless) outcome of a relative threshold or a rank cap applied on a
            # non-orthonormalised side that wiped out the tensor.  Structurally consistent, but no longer a tensor the
            # properties speak about: the history ends here and a fresh object is drawn.
            self.probes["object_with_rank0_bond_discarded"] += 1
            self.t = None
            self.snap = None
            return
        self.snap = M.Snapshot(self.t)
        self.log.add("snap", self.snap.meta, arr_digest(self.snap.dense))
        self.state_keys.add((self.snap.meta, self.last_op))

    def _consistent(self, obj, op, rec, what="receiver"):
        p = M.structural_problem(obj)
        if p is not None:
            self._fail("C03" if op.startswith("ortho") else self.prop, op, "consistent", {"what": what, "problem": p}, rec)

    def _caps_arg(self, mr, as_numpy):
        """A caller typically keeps ONE list of per-bond caps and passes it to call after call.  The harness does the
        same: equal requests share one list object for the whole history, while the oracle always judges against the
        caps written in the record -- so a routine that rewrites its max_rank argument in place shows up as a later
        over-truncation (or cap violation) relative to what was requested."""
        if not isinstance(mr, list):
            return _mr(mr, as_numpy)
        key = (tuple(mr), bool(as_numpy))
        if key not in self._cap_lists:
            self._cap_lists[key] = _mr(mr, as_numpy)
        else:
            self.probes["caps_list_object_reused"] += 1
        return self._cap_lists[key]

    def _numerically_zero(self):
        """The tensor is zero up to rounding (norm below 1e-12 of the product of its core norms, e.g. after a truncation on
        a non-orthonormalised side wiped out its value).  A *relative* threshold then compares rounding noise with
        rounding noise (s/s[0] is 0/0 in the limit): the documentation does not define the outcome (on the real code
        rank-0 bonds and an IndexError can result), so threshold-dependent calls are not issued on such an object."""
        return not (self.snap.norm > 1e-12 * self.tolx * self.floorx * self.snap.scale)

    def _is_vector(self):
        return all(c == 1 for c in self.t.col_dims)

    # ------------------------------------------------------------------ dispatch
    def step(self, rec):
        self.step_no += 1
        op = rec["op"]
        self.last_op = op
        self._kev = []
        self.log.add("op", self.step_no, op, rec.get("args"), rec.get("faults"))
        if op == "new":
            # the constructor from a list of cores is code under test too: if it raises on well-formed cores, or builds
            # an object whose metadata disagree with its cores, no property about that object can hold
            try:
                self.t = gen.build_tt(self.ttm, rec["spec"])
            except Exception as e:
                raise Violation(self.prop, "oracle(TT.__init__,raised)", "raised", {"exception": repr(e)[:300]}, step=self.step_no)
            p_ = M.structural_problem(self.t)
            if p_ is not None:
                raise Violation(self.prop, "oracle(TT.__init__,consistent)", "consistent", {"problem": p_}, step=self.step_no)
            # single-precision cores: "up to rounding" means float32 rounding; only the C03 clauses and the rank cap /
            # quasi-optimality of C04 are evaluated then (tolerances x 2e5), everything threshold- or svd/pinv-related
            # is skipped
            self.single = bool(rec["spec"].get("single"))
            self.tolx = 2.0e5 if self.single else 1.0
            # single precision: rounding is relative to the SCALE (product of the core norms), a few tens of float32 epsilons
            # of it; 1e-12*tolx = 1.7 eps32 was tighter than float32 arithmetic itself (false alarm, DESIGN 11.3)
            self.floorx = 25.0 if self.single else 1.0
            self._resnap()
            return "ok"
        if self.t is None:
            self.log.add("skip", "no object")
            return "skip"
        if self.single and (op in ("svd", "pinv", "truncated_svd") or rec.get("args", {}).get("threshold")):
            self.log.add("skip", "single precision")
            return "skip"
        fn = getattr(self, "op_" + op)
        res = fn(rec)
        if res != "skip":
            self.ops_done += 1
        self.log.add("res", res)
        return res

    # ------------------------------------------------------------------ sweeps (C03, C04)
    def _sweep_admissible(self, op, a):
        d = self.t.order
        if op == "ortho_left":
            s = a.get("start_index", 0)
            e = a.get("end_index")
            e = d - 2 if e is None else e
            if not (0 <= s and e <= d - 2):
                return None
            return s, e
        if op == "ortho_right":
            s = a.get("start_index")
            s = d - 1 if s is None else s
            e = a.get("end_index", 1)
            if not (1 <= e and s <= d - 1):
                return None
            return s, e
        return 0, 0

    def _op_sweep(self, op, rec):
        a = rec.get("args", {})
        d = self.t.order
        adm = self._sweep_admissible(op, a)
        if adm is None:
            return "skip"
        s, e = adm
        thr = a.get("threshold", 0)
        mr = a.get("max_rank")
        if isinstance(mr, list) and len(mr) != d + 1:
            return "skip"
        truncating = (thr != 0) or (mr is not None)
        if thr != 0 and self._numerically_zero():
            return "skip"  # s/s[0] is 0/0: not defined by the documentation
        before = self.snap
        cores_before = [np.array(c, copy=True) for c in self.t.cores]
        ranks_before = list(before.meta[3])
        t = self.t
        kw = {}
        if thr != 0:
            kw["threshold"] = thr
        if mr is not None:
            kw["max_rank"] = self._caps_arg(mr, a.get("np_int", False))
        if op == "ortho_left":
            if "start_index" in a:
                kw["start_index"] = a["start_index"]
            if a.get("end_index") is not None:
                kw["end_index"] = a["end_index"]
            if a.get("progress"):
                kw["progress"] = True
            call = lambda: t.ortho_left(**kw)
        elif op == "ortho_right":
            if a.get("start_index") is not None:
                kw["start_index"] = a["start_index"]
            if "end_index" in a:
                kw["end_index"] = a["end_index"]
            call = lambda: t.ortho_right(**kw)
        else:
            call = lambda: t.ortho(**kw)
        out, exc = self._call(rec, call)
        if exc is not None:
            if self._legal_raise(exc, rec):
                self.raised_ok += 1
                self.t = None
                return "raised"
            if thr != 0 and isinstance(exc, IndexError) and any(int(r) == 0 for r in t.ranks):
                # the relative cut removed every direction that carried weight: the remainder is exactly zero, the next
                # s/s[0] is 0/0, a bond gets rank 0 and s[0] no longer exists.  Same undefined case as a zero tensor
                # with a positive threshold (5.3), only reached in the middle of the call.
                self.probes["threshold_wiped_out_tensor_mid_call"] += 1
                self.t = None
                return "raised"
            self._fail("C03", op, "raised", {"exception": repr(exc)[:300], "args": a}, rec)
        self.pairs.add((op, s, e, d))
        # returned reference and receiver
        for what, obj in (("receiver", t), ("returned", out)):
            if obj is None:
                self._fail("C03", op, "returns-none", {}, rec)
            self._consistent(obj, op, rec, what)
        res = out
        after = M.Snapshot(res)
        if after.meta[:3] != before.meta[:3]:
            self._fail("C03", op, "dims-changed", {"before": before.meta, "after": after.meta}, rec)
        ranks_after = list(after.meta[3])
        # -- ranks never increase
        for i in range(d + 1):
            if ranks_after[i] > ranks_before[i]:
                self._fail("C03", op, "rank-increased", {"bond": i, "before": ranks_before, "after": ranks_after}, rec)
        # -- only the requested bonds / cores are affected (partial sweeps)
        if op == "ortho_left":
            touched_cores = set(range(s, e + 2)) if s <= e else set()
            touched_bonds = set(range(s + 1, e + 2)) if s <= e else set()
            iso = [("L", i) for i in range(s, e + 1)]
        elif op == "ortho_right":
            touched_cores = set(range(e - 1, s + 1)) if e <= s else set()
            touched_bonds = set(range(e, s + 1)) if e <= s else set()
            iso = [("R", i) for i in range(e, s + 1)]
        else:
            touched_cores = set(range(d))
            touched_bonds = set(range(1, d))
            iso = [("R", i) for i in range(1, d)]
        for i in range(d + 1):
            if i not in touched_bonds and ranks_after[i] != ranks_before[i]:
                self._fail("C03", op, "untouched-bond-changed", {"bond": i, "range": [s, e], "before": ranks_before,
                                                                "after": ranks_after}, rec)
        for i in range(d):
            if i not in touched_cores:
                c = np.asarray(res.cores[i])
                if c.shape != cores_before[i].shape or (c.size and float(np.max(np.abs(c - cores_before[i]))) >
                                                        TOL_SAME * (1.0 + float(np.max(np.abs(cores_before[i]))))):
                    self._fail("C03", op, "untouched-core-changed", {"core": i, "range": [s, e]}, rec)
        # -- isometry of every processed core
        for side, i in iso:
            c = res.cores[i]
            defect = M.left_gram_defect(c) if side == "L" else M.right_gram_defect(c)
            if not (defect <= TOL_GRAM * self.tolx):
                self._fail("C03", op, "isometry", {"core": i, "side": side, "defect": defect, "range": [s, e]}, rec)
        if not truncating:
            # -- value preserved
            bad, err = before.differs(after.dense, TOL_VALUE * self.tolx, 1e-12 * self.tolx * self.floorx)
            if bad:
                self._fail("C03", op, "value", {"error": err, "norm": before.norm, "scale": before.scale, "range": [s, e],
                                                "ranks_before": ranks_before, "ranks_after": ranks_after}, rec)
        else:
            self._check_truncation(op, rec, before, after, thr, mr, touched_bonds, d)
        self.t = res
        self._resnap()
        return "ok"

    def _check_truncation(self, op, rec, before, after, thr, mr, touched_bonds, d):
        """C04: rank cap always; TT-SVD quasi-optimality where the property states it."""
        ranks_after = list(after.meta[3])
        if mr is not None:
            caps = _cap_list(mr, d)
            for i in sorted(touched_bonds):
                if ranks_after[i] > caps[i]:
                    self._fail("C04", op, "rank-cap", {"bond": i, "cap": caps[i] if caps[i] != np.inf else None,
                                                       "ranks": ranks_after}, rec)
        if not after.finite:
            self._fail("C04", op, "non-finite", {}, rec)
        if op in ("ortho", "tt_from_cores", "tt_from_array") and thr == 0 and mr is not None:
            caps = _cap_list(mr, d)
            bound2 = 0.0
            for k in range(1, d):
                sv = M.unfolding_sv(before.dense, k)
                r = caps[k]
                if r != np.inf and r < len(sv):
                    bound2 += float(np.sum(sv[int(r):] ** 2))
            err = float(env.REAL.np_norm((after.dense - before.dense).ravel())) if after.dense.shape == before.dense.shape else INF
            lim = (1 + 1e-8 * self.tolx) * math.sqrt(bound2) + 1e-11 * self.tolx * before.norm + before.floor(1e-12 * self.tolx * self.floorx)
            if not (err <= lim):
                self._fail("C04", op, "quasi-optimal", {"error": err, "bound": math.sqrt(bound2), "caps": [None if c == np.inf else c for c in caps],
                                                         "ranks_after": ranks_after}, rec)

    def op_ortho_left(self, rec):
        return self._op_sweep("ortho_left", rec)

    def op_ortho_right(self, rec):
        return self._op_sweep("ortho_right", rec)

    def op_ortho(self, rec):
        return self._op_sweep("ortho", rec)

    # ------------------------------------------------------------------ the caller edits the object between calls
    def op_poke(self, rec):
        """C03-C05 are statements about the tensor train a call RECEIVES.  Between two calls the owner of the object may
        have changed it by the means the class offers -- its cores are public, mutable arrays: scale a slice of a core in
        place (the array keeps its identity), or assign a new array of the same shape.  The model simply follows; any
        per-object bookkeeping the library keeps (an 'already orthonormal' flag, a cached decomposition) must not survive
        such an edit."""
        a = rec.get("args", {})
        t = self.t
        i = int(a.get("core", 0)) % t.order
        g = np.random.Generator(np.random.PCG64(rec.get("sub_seed", 0)))
        c = t.cores[i]
        if not isinstance(c, np.ndarray) or c.size == 0:
            return "skip"
        w = g.uniform(0.5, 2.0, size=c.shape[1])
        if a.get("how") == "assign":
            t.cores[i] = np.array(c, dtype=np.result_type(c.dtype, float)) * w[None, :, None, None]
        else:
            if c.dtype.kind in "iub" or not c.flags.writeable:
                return "skip"
            c *= w[None, :, None, None].astype(c.dtype) if c.dtype.kind == "f" else w[None, :, None, None]
        self.probes["object_edited_by_caller"] += 1
        self._resnap()
        return "ok"

    # ------------------------------------------------------------------ a consumer of the sweep: norm() (C03 retry path)
    def op_norm2(self, rec):
        """TT.norm(p=2) right-orthonormalises a copy and reads the norm off the first core: the value is only right
        if the internal sweep (incl. its gesvd retry) preserved the tensor; the receiver must not change."""
        before = self.snap
        t = self.t
        if before.meta[3][0] != 1 or before.meta[3][-1] != 1:
            return "skip"
        out, exc = self._call(rec, lambda: t.norm(p=2))
        if exc is not None:
            if self._legal_raise(exc, rec):
                self.raised_ok += 1
                return "raised"
            self._fail("C03", "norm", "raised", {"exception": repr(exc)[:300]}, rec)
        val = float(np.real(out))
        if not (abs(val - before.norm) <= 1e-9 * self.tolx * before.norm + before.floor(1e-12 * self.tolx * self.floorx)):
            self._fail("C03", "norm", "value", {"norm": val, "model": before.norm}, rec)
        now = M.Snapshot(t)
        if now.meta != before.meta or before.differs(now.dense, TOL_SAME)[0]:
            self._fail("C03", "norm", "receiver-changed", {"before": before.meta, "after": now.meta}, rec)
        return "ok"

    # ------------------------------------------------------------------ (re)construction with truncation (C04)
    def _op_construct(self, op, rec):
        a = rec.get("args", {})
        thr = a.get("threshold", 0)
        mr = a.get("max_rank")
        before = self.snap
        d = self.t.order
        if isinstance(mr, list) and (op != "tt_from_cores" or len(mr) != d + 1):
            return "skip"     # the array branch takes an int only; TT(cores, max_rank=list) hands the list to ortho()
        if before.meta[3][0] != 1 or before.meta[3][-1] != 1:
            return "skip"
        if thr != 0 and self._numerically_zero():
            return "skip"
        if op == "tt_from_array":
            x = M.as_operator(before.dense, d).copy()
            if a.get("order") == "F":
                x = np.asfortranarray(x)
            ckw = {}
            if thr != 0:
                ckw["threshold"] = thr
            if mr is not None:
                ckw["max_rank"] = _mr(mr)
            call = lambda: self.ttm.TT(x, **ckw)
        else:
            cores = [np.array(c, copy=True) for c in self.t.cores]
            ckw = {}
            if thr != 0:
                ckw["threshold"] = thr
            if mr is not None:
                ckw["max_rank"] = _mr(mr)
            call = lambda: self.ttm.TT(cores, **ckw)
        out, exc = self._call(rec, call)
        if exc is not None:
            if self._legal_raise(exc, rec):
                self.raised_ok += 1
                self.t = None
                return "raised"
            if thr != 0 and isinstance(exc, IndexError) and "size 0" in str(exc):
                self.probes["threshold_wiped_out_tensor_mid_call"] += 1   # see _op_sweep
                self.t = None
                return "raised"
            self._fail("C04", op, "raised", {"exception": repr(exc)[:300], "args": a}, rec)
        p = M.structural_problem(out)
        if p is not None:
            self._fail("C04", op, "consistent", {"problem": p}, rec)
        after = M.Snapshot(out)
        if after.meta[:3] != before.meta[:3]:
            self._fail("C04", op, "dims-changed", {"before": before.meta, "after": after.meta}, rec)
        ranks_after = list(after.meta[3])
        if thr == 0 and mr is None:
            bad, err = before.differs(after.dense, TOL_VALUE * self.tolx, 1e-12 * self.tolx * self.floorx)
            if bad:
                self._fail("C04", op, "exact", {"error": err, "norm": before.norm, "scale": before.scale}, rec)
        else:
            self._check_truncation(op, rec, before, after, thr, mr, set(range(1, d)), d)
            if op == "tt_from_array" and thr != 0 and mr is None:
                # relative-threshold bound: ||T-T'|| <= thr * ||T|| * sqrt(#discarded directions)
                disc = 0
                for k in range(d - 1):
                    rows = ranks_after[k] * before.meta[1][k] * before.meta[2][k]
                    cols = int(np.prod(before.meta[1][k + 1:])) * int(np.prod(before.meta[2][k + 1:]))
                    disc += max(0, min(rows, cols) - ranks_after[k + 1])
                err = float(env.REAL.np_norm((after.dense - before.dense).ravel()))
                lim = (1 + 1e-8) * thr * before.norm * math.sqrt(disc) + 1e-11 * before.norm + before.floor()
                if not (err <= lim):
                    self._fail("C04", op, "threshold-bound", {"error": err, "bound": thr * before.norm * math.sqrt(disc),
                                                               "discarded": disc, "threshold": thr, "ranks_after": ranks_after}, rec)
        self.t = out
        self._resnap()
        return "ok"

    def op_tt_from_array(self, rec):
        return self._op_construct("tt_from_array", rec)

    def op_tt_from_cores(self, rec):
        return self._op_construct("tt_from_cores", rec)

    # ------------------------------------------------------------------ shared helper (C04 anchor utils.truncated_svd)
    def op_truncated_svd(self, rec):
        a = rec.get("args", {})
        d = self.t.order
        k = a.get("k", 1)
        if not (1 <= k <= d - 1):
            return "skip"
        thr = a.get("threshold", 0)
        mr = a.get("max_rank")
        rel = a.get("rel", True)
        A = M.unfolding(self.snap.dense, k).copy()
        if thr != 0 and self._numerically_zero():
            return "skip"
        arg = np.asfortranarray(A.copy()) if a.get("order") == "F" else A.copy()
        kw = {}
        if thr != 0:
            kw["threshold"] = thr
        if mr is not None:
            kw["max_rank"] = _mr(mr)
        if rel is not True:
            kw["rel_truncation"] = rel
        out, exc = self._call(rec, lambda: self.utl.truncated_svd(arg, **kw))
        if exc is not None:
            if self._legal_raise(exc, rec):
                self.raised_ok += 1
                return "raised"
            self._fail("C04", "truncated_svd", "raised", {"exception": repr(exc)[:300]}, rec)
        try:
            u, s, v = out
            u, s, v = np.asarray(u), np.asarray(s), np.asarray(v)
            r = len(s)
        except Exception as e:
            self._fail("C04", "truncated_svd", "shapes", {"returned": repr(type(out))[:80], "problem": repr(e)[:200]}, rec)
        sv = env.REAL.np_svd(A, compute_uv=False)
        if mr is not None and r > mr:
            self._fail("C04", "truncated_svd", "rank-cap", {"cap": mr, "got": r}, rec)
        if u.shape != (A.shape[0], r) or v.shape != (r, A.shape[1]):
            self._fail("C04", "truncated_svd", "shapes", {"u": u.shape, "v": v.shape, "r": r}, rec)
        if r:
            gu = float(np.max(np.abs(u.conj().T.dot(u) - np.eye(r))))
            gv = float(np.max(np.abs(v.dot(v.conj().T) - np.eye(r))))
            if not (gu <= TOL_GRAM and gv <= TOL_GRAM):
                self._fail("C04", "truncated_svd", "orthonormal", {"u": gu, "v": gv}, rec)
            if float(np.max(np.abs(np.asarray(s) - sv[:r]))) > 1e-9 * (sv[0] + 1e-300):
                self._fail("C04", "truncated_svd", "largest-kept", {"s": list(map(float, s)), "sv": list(map(float, sv))}, rec)
        err = float(env.REAL.np_norm(A - (u * s).dot(v)))
        best = math.sqrt(float(np.sum(sv[r:] ** 2)))
        if not (err <= (1 + 1e-8) * best + 1e-11 * (sv[0] if len(sv) else 0.0) + 1e-300):
            self._fail("C04", "truncated_svd", "quasi-optimal", {"error": err, "best": best, "kept": r}, rec)
        if thr != 0 and len(sv):
            cut = thr * sv[0] if rel else thr
            noise = 1e-11 * sv[0]   # singular values below this are rounding noise: on which side of the cut they fall is not defined
            # nothing kept below the cut, nothing dropped above it (guard band for ties)
            if r and float(s[-1]) > noise and float(s[-1]) < cut * (1 - 1e-6):
                self._fail("C04", "truncated_svd", "kept-below-threshold", {"cut": cut, "s": list(map(float, s))}, rec)
            cap = mr if mr is not None else len(sv)
            if r < min(cap, len(sv)) and float(sv[r]) > noise and float(sv[r]) > cut * (1 + 1e-6):
                self._fail("C04", "truncated_svd", "dropped-above-threshold", {"cut": cut, "next": float(sv[r]), "kept": r}, rec)
        return "ok"

    # ------------------------------------------------------------------ global SVD / pseudoinverse (C05)
    def _svd_pre(self, a):
        """Admissibility of an svd/pinv record in the current state; returns None to skip."""
        t = self.t
        d = t.order
        idx = a.get("index", 1)
        if not self._is_vector() or d < 2 or not (1 <= idx <= d - 1):
            return None
        if self.snap.meta[3][0] != 1 or self.snap.meta[3][-1] != 1:
            return None
        if not a.get("ortho_l", True):
            if any(M.left_gram_defect(t.cores[i]) > 1e-12 for i in range(0, idx - 1)):
                return None
        if not a.get("ortho_r", True):
            if any(M.right_gram_defect(t.cores[i]) > 1e-12 for i in range(idx, d)):
                return None
        return idx

    def _spectra_ok(self, thr):
        """True if no unfolding has a singular value in the ambiguity band around thr (or below for thr=0)."""
        d = self.t.order
        for k in range(1, d):
            sv = M.unfolding_sv(self.snap.dense, k)
            if not len(sv) or sv[0] == 0:
                return False
            rel = sv / sv[0]
            if thr == 0:
                continue
            if np.any((rel > thr * 1e-3) & (rel < thr * 1e3)):
                return False
        return True

    def op_svd(self, rec):
        a = rec.get("args", {})
        idx = self._svd_pre(a)
        if idx is None:
            return "skip"
        thr = a.get("threshold", 0)
        mr = a.get("max_rank")
        ow = bool(a.get("overwrite", False))
        if thr != 0 and (self._numerically_zero() or not self._spectra_ok(thr)):
            self.probes["svd_threshold_ambiguous_skipped"] += 1
            return "skip"
        before = self.snap
        t = self.t
        d = t.order
        kw = {}   # only what the record specifies: the library's default values are code under test
        if thr != 0:
            kw["threshold"] = thr
        if mr is not None:
            kw["max_rank"] = _mr(mr)
        for k_ in ("ortho_l", "ortho_r"):
            if a.get(k_) is False:
                kw[k_] = False
        if ow:
            kw["overwrite"] = True
        out, exc = self._call(rec, lambda: t.svd(idx, **kw))
        if exc is not None:
            if self._legal_raise(exc, rec):
                self.raised_ok += 1
                self.t = None
                return "raised"
            self._fail("C05", "svd", "raised", {"exception": repr(exc)[:300], "args": a}, rec)
        try:
            u, s, v = out
            len(s)
        except Exception as e:
            self._fail("C05", "svd", "shapes", {"returned": repr(type(out))[:80], "problem": repr(e)[:200]}, rec)
        for what, obj in (("u", u), ("v", v), ("input", t)):
            p = M.structural_problem(obj)
            if p is not None:
                self._fail("C05", "svd", "consistent", {"what": what, "problem": p, "overwrite": ow}, rec)
        if not ow:
            now = M.Snapshot(t)
            if now.meta != before.meta or before.differs(now.dense, TOL_SAME)[0]:
                self._fail("C05", "svd", "input-changed", {"before": before.meta, "after": now.meta,
                                                           "error": before.differs(now.dense, TOL_SAME)[1]}, rec)
        s = np.asarray(s)
        r = len(s)
        A = M.unfolding(before.dense, idx)
        if r == 0 or u.ranks[-1] == 0 or v.ranks[0] == 0:
            self._fail("C05", "svd", "rank-zero", {"len_s": r, "u_ranks": u.ranks, "v_ranks": v.ranks, "norm": before.norm}, rec)
        U = M.dense(u).reshape(-1, u.ranks[-1])
        V = M.dense(v).reshape(v.ranks[0], -1)
        if u.ranks[-1] != r or v.ranks[0] != r or U.shape[0] != A.shape[0] or V.shape[1] != A.shape[1]:
            self._fail("C05", "svd", "shapes", {"u_ranks": u.ranks, "v_ranks": v.ranks, "len_s": r, "A": A.shape}, rec)
        if mr is not None and r > mr:
            self._fail("C05", "svd", "rank-cap", {"cap": mr, "got": r}, rec)
        gu = float(np.max(np.abs(U.conj().T.dot(U) - np.eye(r)))) if r else 0.0
        gv = float(np.max(np.abs(V.dot(V.conj().T) - np.eye(r)))) if r else 0.0
        if not (gu <= TOL_GRAM and gv <= TOL_GRAM):
            self._fail("C05", "svd", "orthonormal", {"u_defect": gu, "v_defect": gv, "index": idx}, rec)
        if mr is None:
            sv = env.REAL.np_svd(A, compute_uv=False)
            s1 = (sv[0] if len(sv) else 0.0) + 1e-4 * before.scale   # absolute floor for (nearly) cancelling tensors
            rec_err = float(env.REAL.np_norm(A - (U * s).dot(V)))
            if not (rec_err <= 1e-8 * before.norm + before.floor()):
                self._fail("C05", "svd", "reconstruction", {"error": rec_err, "norm": before.norm, "index": idx, "threshold": thr}, rec)
            ssorted = np.sort(np.abs(s))[::-1]
            k = min(r, len(sv))
            if k and float(np.max(np.abs(ssorted[:k] - sv[:k]))) > 1e-8 * (s1 + 1e-300):
                self._fail("C05", "svd", "singular-values", {"s": list(map(float, s)), "sv": list(map(float, sv)), "index": idx}, rec)
            if r > len(sv) and float(np.max(np.abs(ssorted[len(sv):]))) > 1e-8 * (s1 + 1e-300):
                self._fail("C05", "svd", "singular-values-extra", {"s": list(map(float, s)), "sv": list(map(float, sv))}, rec)
            if r < len(sv) and float(sv[r]) > max(thr * 1e3, 1e-8) * (s1 + 1e-300):
                self._fail("C05", "svd", "singular-values-missing", {"s": list(map(float, s)), "sv": list(map(float, sv)), "threshold": thr}, rec)
            if np.any(np.diff(np.asarray(s, dtype=float)) > 1e-9 * (s1 + 1e-300)) or np.any(np.asarray(s).real < 0):
                self._fail("C05", "svd", "s-not-sorted-nonneg", {"s": list(map(float, s))}, rec)
        if ow:
            self._resnap()
        return "ok"

    def op_pinv(self, rec):
        a = rec.get("args", {})
        idx = self._svd_pre(a)
        if idx is None:
            return "skip"
        thr = a.get("threshold", 0)
        ow = bool(a.get("overwrite", False))
        before = self.snap
        if self._numerically_zero() or before.norm < 1e-6 * before.scale:
            return "skip"   # (nearly) zero by cancellation: the pseudoinverse amplifies rounding noise without bound
        A = M.unfolding(before.dense, idx)
        sv = env.REAL.np_svd(A, compute_uv=False)
        rel = sv / sv[0]
        if thr == 0:
            if rel[-1] < 1e-4:  # rank-deficient / ill-conditioned unfoldings are always given a threshold
                return "skip"
        else:
            if not self._spectra_ok(thr):
                self.probes["pinv_threshold_ambiguous_skipped"] += 1
                return "skip"
            kept = rel[rel > thr]
            if not len(kept) or kept[-1] < 1e-4:
                return "skip"
        t = self.t
        kw = {}
        if thr != 0:
            kw["threshold"] = thr
        for k_ in ("ortho_l", "ortho_r"):
            if a.get(k_) is False:
                kw[k_] = False
        if ow:
            kw["overwrite"] = True
        out, exc = self._call(rec, lambda: t.pinv(idx, **kw))
        if exc is not None:
            if self._legal_raise(exc, rec):
                self.raised_ok += 1
                self.t = None
                return "raised"
            self._fail("C05", "pinv", "raised", {"exception": repr(exc)[:300], "args": a}, rec)
        for what, obj in (("pinv", out), ("input", t)):
            p = M.structural_problem(obj)
            if p is not None:
                self._fail("C05", "pinv", "consistent", {"what": what, "problem": p, "overwrite": ow}, rec)
        if not ow:
            now = M.Snapshot(t)
            if now.meta != before.meta or before.differs(now.dense, TOL_SAME)[0]:
                self._fail("C05", "pinv", "input-changed", {"before": before.meta, "after": now.meta}, rec)
        P = M.dense(out)
        if out.row_dims != list(before.meta[1]) or out.col_dims != list(before.meta[2]):
            self._fail("C05", "pinv", "dims-changed", {"rows": out.row_dims, "cols": out.col_dims}, rec)
        Pm = M.unfolding(P, idx)
        want = env.REAL.np_pinv(A, rcond=(thr if thr else 1e-12)).conj().T
        rd = M.rel_diff(Pm, want)
        if not (rd <= 1e-6):
            self._fail("C05", "pinv", "moore-penrose", {"rel_diff": rd, "index": idx, "threshold": thr,
                                                        "sv": list(map(float, sv))}, rec)
        if ow:
            self._resnap()
        return "ok"


# ====================================================================== generation

FOCUS = {
    "C03": {"sweep": 8, "trunc": 2, "construct": 1, "helper": 0, "svd": 1, "norm": 1, "poke": 1},
    "C04": {"sweep": 3, "trunc": 7, "construct": 5, "helper": 3, "svd": 0, "poke": 1},
    "C05": {"sweep": 3, "trunc": 1, "construct": 0, "helper": 0, "svd": 10, "poke": 1},
}


def closed_ranks(t):
    return t.ranks[0] == 1 and t.ranks[-1] == 1


def swarm_config(prop, seed, faults):
    rnd = Streams(seed).py("config")
    deep = os.environ.get("SIMTT_TIER") == "thorough"   # deeper bounds in the thorough tier (set by the runner)
    cfg = {
        "max_order": rnd.choice((2, 3, 3, 4, 4, 5, 6, 7) if deep else (2, 3, 3, 3, 4, 4, 4, 5, 5, 6)),
        "max_rank": rnd.choice((2, 3, 4, 6, 8, 10) if deep else (2, 2, 3, 3, 4, 4, 6, 6, 8)),
        "layouts": rnd.choice((["C"], ["C"], ["C", "T"], list(gen.LAYOUTS), ["C", "moveaxis", "moveaxis_r", "T"], ["F", "C"])),
        "cplx_p": rnd.choice((0.0, 0.3, 0.5, 1.0)),
        "kinds": rnd.choice((["vector"], ["vector", "square", "general"], ["square"], ["general", "vector"])),
        "length": rnd.choice((1, 2, 3, 5, 8, 14) if deep else (1, 2, 3, 5, 8)),
        "fault_rate": (rnd.choice((0.3, 0.6, 1.0)) if faults else 0.0),
        "double_p": rnd.choice((0.0, 0.15, 0.4)),
        "sizes": rnd.choice(((1, 2, 3), (1, 2, 3), (2, 3), (2, 3), (1, 2), (1, 2), (2,), (2,), (1, 2, 3, 4), (1, 2, 3, 4),
                             (1, 2, 3, 4, 5), (2, 5, 7)) + (((1, 2, 3, 4, 5), (3, 5), (2, 6, 9)) if deep else ())),
        "vals": rnd.choice((None, None, "normal", "deficient", "ints")),
    }
    if prop == "C05":
        cfg["kinds"] = ["vector"]
        cfg["vals"] = rnd.choice(("normal", "deficient", "ints", None))
        cfg["max_order"] = max(2, cfg["max_order"])
    return cfg


def _new_record(rnd, cfg, prop):
    order = rnd.randint(2 if prop == "C05" else 1, cfg["max_order"])
    vals = cfg["vals"]
    spec = gen.rand_spec(rnd, order=order, kind=rnd.choice(cfg["kinds"]), max_rank=cfg["max_rank"],
                         layouts=cfg["layouts"], cplx_p=cfg["cplx_p"], vals=vals, sizes=cfg["sizes"])
    if prop == "C05":
        # no 'decay' spectra for threshold-dependent checks (see DESIGN 5.4)
        spec["vals"] = [v if v != "decay" else "normal" for v in spec["vals"]]
    # keep dense sizes bounded
    while int(np.prod(spec["rows"])) * int(np.prod(spec["cols"])) > 6561:
        i = rnd.randrange(order)
        spec["rows"][i] = 1 if spec["rows"][i] > 1 else spec["rows"][i]
        spec["cols"][i] = 1 if spec["cols"][i] > 1 and spec["cols"][i] != 1 else spec["cols"][i]
        spec["ranks"] = gen.rand_ranks(rnd, spec["rows"], spec["cols"], cfg["max_rank"])
    return {"op": "new", "spec": spec}


def _faults(rnd, cfg):
    if cfg["fault_rate"] and rnd.random() < cfg["fault_rate"]:
        f = {"kind": "F-gesdd", "nth": rnd.choice((1, 1, 1, 2, 2, 3, 3, 4, 5, 6, 8))}
        if rnd.random() < cfg["double_p"]:
            f["double"] = True
        fl = [f]
        if rnd.random() < 0.25:
            fl.append({"kind": "F-gesdd", "nth": f["nth"] + rnd.randint(1, 3)})
        return fl
    return []


def _choose(rnd, run, cfg, prop):
    t = run.t
    d = t.order
    pend = getattr(run, "_pending", None)
    if pend:
        rec = pend.pop(0)
        if rec["op"] != "ortho" or len(rec["args"].get("max_rank", [])) == d + 1:
            rec["sub_seed"] = rnd.getrandbits(32)
            return rec
    caps = getattr(run, "_last_caps", None)
    if caps is not None and len(caps) == d + 1 and rnd.random() < 0.12 and closed_ranks(t):
        # the caller's list of per-bond caps lives on: let the ranks grow again (exact re-decomposition of the dense
        # tensor) and request the very same caps once more
        run._pending = [{"op": "ortho", "args": {"max_rank": list(caps)}}]
        return {"op": "tt_from_array", "args": {}, "sub_seed": rnd.getrandbits(32)}
    w = FOCUS[prop]
    groups = [g for g in w for _ in range(w[g])]
    g = rnd.choice(groups)
    rec = None
    if g in ("sweep", "trunc"):
        op = rnd.choice(("ortho_left", "ortho_right", "ortho"))
        a = {}
        if op == "ortho_left" and d >= 2:
            mode = rnd.random()
            if mode < 0.35:
                pass
            else:
                s = rnd.randint(0, d - 2)
                e = rnd.randint(s, d - 2) if rnd.random() < 0.9 else rnd.randint(0, d - 2)
                a["start_index"] = s
                a["end_index"] = e
        elif op == "ortho_right" and d >= 2:
            if rnd.random() >= 0.35:
                s = rnd.randint(1, d - 1)
                e = rnd.randint(1, s) if rnd.random() < 0.9 else rnd.randint(1, d - 1)
                a["start_index"] = s
                a["end_index"] = e
        if g == "trunc":
            if rnd.random() < 0.15:
                a["np_int"] = True
            c = rnd.random()
            if c < 0.45 or (op != "ortho" and c < 0.6):
                a["max_rank"] = rnd.randint(1, 4)
            elif c < 0.65:
                prev = getattr(run, "_last_caps", None)
                if prev is not None and len(prev) == d + 1 and rnd.random() < 0.5:
                    a["max_rank"] = list(prev)      # the caller reuses its list of caps
                else:
                    a["max_rank"] = [1] + [rnd.choice((1, 2, 3, 4, None)) for _ in range(d - 1)] + [1]
                run._last_caps = list(a["max_rank"])
            elif c < 0.85:
                a["threshold"] = rnd.choice((1e-12, 1e-8, 1e-3, 0.1, 0.5))
            else:
                a["threshold"] = rnd.choice((1e-12, 1e-3, 0.2))
                a["max_rank"] = rnd.randint(1, 4)
        if op == "ortho_left" and rnd.random() < 0.1:
            a["progress"] = True
        rec = {"op": op, "args": a}
    elif g == "norm":
        rec = {"op": "norm2", "args": {}}
    elif g == "poke":
        rec = {"op": "poke", "args": {"core": rnd.randrange(d), "how": rnd.choice(("inplace", "inplace", "assign"))}}
    elif g == "construct":
        op = rnd.choice(("tt_from_array", "tt_from_array", "tt_from_cores"))
        a = {}
        c = rnd.random()
        if c < 0.4:
            a["max_rank"] = rnd.randint(1, 4)
        elif c < 0.75:
            a["threshold"] = rnd.choice((1e-12, 1e-6, 1e-3, 0.05, 0.3, 0.9))
        elif c < 0.85:
            a["threshold"] = rnd.choice((1e-6, 0.1))
            a["max_rank"] = rnd.randint(1, 3)
        if op == "tt_from_array" and rnd.random() < 0.2:
            a["order"] = "F"
        if op == "tt_from_cores" and rnd.random() < 0.35:
            a.pop("threshold", None)
            a["max_rank"] = [1] + [rnd.choice((1, 2, 3, 4, None)) for _ in range(d - 1)] + [1]   # per-bond caps through the constructor
        rec = {"op": op, "args": a}
    elif g == "helper":
        if d < 2:
            return None
        a = {"k": rnd.randint(1, d - 1), "order": rnd.choice(("C", "F"))}
        c = rnd.random()
        if c < 0.4:
            a["max_rank"] = rnd.randint(1, 4)
        elif c < 0.7:
            a["threshold"] = rnd.choice((1e-10, 1e-3, 0.3))
            a["rel"] = rnd.random() < 0.7
        elif c < 0.85:
            a["threshold"] = rnd.choice((1e-3, 0.3))
            a["max_rank"] = rnd.randint(1, 3)
        rec = {"op": "truncated_svd", "args": a}
    else:
        if d < 2 or not run._is_vector():
            return None
        a = {"index": rnd.randint(1, d - 1)}
        op = rnd.choice(("svd", "svd", "pinv"))
        c = rnd.random()
        if c < 0.3:
            a["threshold"] = THR_NULL
        elif c < 0.45 and op == "svd":
            a["max_rank"] = rnd.randint(1, 3)
        if rnd.random() < 0.25:
            a["overwrite"] = True
        if rnd.random() < 0.2:
            a["ortho_l"] = False
        if rnd.random() < 0.2:
            a["ortho_r"] = False
        rec = {"op": op, "args": a}
    rec["sub_seed"] = rnd.getrandbits(32)
    fl = _faults(rnd, cfg)
    if fl:
        rec["faults"] = fl
    return rec


def generate_and_run(prop, seed, faults, keep_events=False):
    """Generate one history while executing it.  Returns (run, records, violation-or-None)."""
    cfg = swarm_config(prop, seed, faults)
    rnd = Streams(seed).py("workload")
    run = Run(prop, cfg, keep_events=keep_events)
    records = []
    viol = None
    run.seams.install()
    try:
        n = cfg["length"]
        i = 0
        guard = 0
        while i < n and guard < 4 * n + 8:
            guard += 1
            if run.t is None:
                rec = _new_record(rnd, cfg, prop)
            else:
                rec = _choose(rnd, run, cfg, prop)
                if rec is None:
                    continue
            records.append(rec)
            res = run.step(rec)
            if rec["op"] != "new" and res != "skip":
                i += 1
    except Violation as v:
        viol = v
    finally:
        run.seams.uninstall()
    return run, records, viol, cfg


def replay(prop, records, keep_events=False):
    run = Run(prop, {}, keep_events=keep_events)
    viol = None
    run.seams.install()
    try:
        for rec in records:
            rec = _strip_done(rec)
            run.step(rec)
    except Violation as v:
        viol = v
    finally:
        run.seams.uninstall()
    return run, viol


def _strip_done(rec):
    if "faults" in rec:
        rec = dict(rec)
        rec["faults"] = [{k: v for k, v in f.items() if k != "done"} for f in rec["faults"]]
    return rec


# ====================================================================== runner interface

NAME = "sweep"
RULE = ("one history = 1-8 seeded operations (partial/full left/right/two-sided sweeps with or without threshold / "
        "max_rank, re-construction from full array or cores, global SVD / pseudoinverse, utils.truncated_svd) applied "
        "in place to ONE live tensor train drawn from a per-run swarm configuration (order 1-5, mode sizes 1-4, ranks "
        "1-6 with P(rank=1)=0.4 and over-parameterised bonds, real/complex, rank-deficient / decaying / integer cores, "
        "seven memory layouts); in the fault batch each op carries a plan 'k-th eligible gesdd call fails (and the "
        "gesvd retry too)'. A history is NON-TRIVIAL if a fault fired in it, or it contains a partial sweep, a "
        "truncation that removed a rank, or an svd/pinv; DISTINCT by the key (op-name sequence, sweep ranges, "
        "metadata of the object after every op, fault kinds fired, whether LAPACK wrote in place).")
COMPONENTS = {
    "real": ["scikit_tt.tensor_train (TT.ortho_left/ortho_right/ortho/svd/pinv/__init__)", "scikit_tt.utils.truncated_svd",
             "NumPy", "SciPy/LAPACK (behind pass-through kernel wrappers; faults raised after the real call)"],
    "stub": ["clock (fake time object)", "stdout (in-memory sink)", "matplotlib (empty module, unused here)"],
}


def simplifier(rec):
    from .minimise import generic_simplifier
    return generic_simplifier(rec)


def evidence_extra(total):
    pairs = sorted(total["pairs"])
    return {"partial_sweep_ranges_covered": len(pairs), "partial_sweep_ranges_sample": [list(p) for p in pairs[:12]]}


def run_one(prop, seed, faults, want_events=False):
    run, records, viol, cfg = generate_and_run(prop, seed, faults, keep_events=want_events)
    nontrivial = bool(sum(run.seams.fired.values())) or any(
        (r["op"] in ("svd", "pinv")) or (r["op"] in ("ortho_left", "ortho_right") and r.get("args", {}).get("start_index") is not None)
        or r.get("args", {}).get("max_rank") is not None or r.get("args", {}).get("threshold") for r in records)
    key = None
    if nontrivial:
        key = H("trace", [(r["op"], r.get("args", {}).get("start_index"), r.get("args", {}).get("end_index"),
                           r.get("args", {}).get("index")) for r in records],
                sorted(run.state_keys, key=repr), sorted(run.seams.fired.items()),
                run.probes.get("fault_after_inplace_write", 0) > 0)
    out = {
        "ops": run.ops_done, "digest": run.log.digest(), "fired": dict(run.seams.fired), "probes": dict(run.probes),
        "kernel_calls": dict(run.seams.calls), "trace_key": key, "states": [H("st", k) for k in run.state_keys],
        "raised_ok": run.raised_ok, "clock_reads": run.seams.clock.reads, "sim_clock_s": run.seams.clock.now - 1.0e9,
        "pairs": [list(p) for p in run.pairs], "records": records, "cfg": cfg, "viol": viol.as_dict() if viol else None,
    }
    if want_events:
        out["events"] = run.log.events
    return out


def replay_records(prop, records, want_events=False):
    run, viol = replay(prop, records, keep_events=want_events)
    out = {"digest": run.log.digest(), "viol": viol.as_dict() if viol else None, "fired": dict(run.seams.fired)}
    if want_events:
        out["events"] = run.log.events
    return out
