"""Minimisation of a failing history: ddmin over the record list, then per-record simplification.

A candidate is kept only if replaying it fails with the *same signature* (DESIGN 2.1).  Records are
self-contained (own sub-seed, own fault plan addressed by "k-th call of kernel X inside this op"),
so deleting one cannot shift anybody else's random numbers or faults.
"""
import copy


def _fails(test, records, budget):
    if budget[0] <= 0:
        return False
    budget[0] -= 1
    try:
        return bool(test(records))
    except Exception:
        return False


def ddmin(records, test, budget):
    n = 2
    recs = list(records)
    while len(recs) >= 2 and budget[0] > 0:
        chunk = max(1, len(recs) // n)
        subsets = [recs[i:i + chunk] for i in range(0, len(recs), chunk)]
        reduced = False
        # try complements (remove one chunk)
        for i in range(len(subsets)):
            cand = [r for j, s in enumerate(subsets) if j != i for r in s]
            if cand and _fails(test, cand, budget):
                recs = cand
                n = max(n - 1, 2)
                reduced = True
                break
        if not reduced:
            if chunk == 1:
                break
            n = min(len(recs), n * 2)
    return recs


def simplify_records(records, test, simplifier, budget):
    """Greedy per-record simplification with machine-specific candidate generators."""
    recs = list(records)
    changed = True
    rounds = 0
    while changed and budget[0] > 0 and rounds < 6:
        changed = False
        rounds += 1
        for i in range(len(recs)):
            for cand_rec in simplifier(recs[i]):
                cand = recs[:i] + [cand_rec] + recs[i + 1:]
                if _fails(test, cand, budget):
                    recs = cand
                    changed = True
                    break
    return recs


def generic_simplifier(rec):
    """Candidates simpler than rec: fewer faults, fewer optional args, simpler operand specs."""
    out = []
    if rec.get("faults"):
        fl = rec["faults"]
        if len(fl) > 1:
            for i in range(len(fl)):
                r = copy.deepcopy(rec)
                del r["faults"][i]
                out.append(r)
        r = copy.deepcopy(rec)
        del r["faults"]
        out.append(r)
        for i, f in enumerate(fl):
            if f.get("double"):
                r = copy.deepcopy(rec)
                del r["faults"][i]["double"]
                out.append(r)
            if int(f.get("nth", 1)) > 1:
                r = copy.deepcopy(rec)
                r["faults"][i]["nth"] = int(f["nth"]) - 1
                out.append(r)
    a = rec.get("args")
    if isinstance(a, dict):
        for k in sorted(a.keys()):
            if k in ("index", "k", "num_axes"):
                continue
            r = copy.deepcopy(rec)
            del r["args"][k]
            out.append(r)
    spec = rec.get("spec")
    if isinstance(spec, dict) and "rows" in spec:
        d = len(spec["rows"])
        if d > 1:
            # shorter trains first: drop the last / the first core (boundary rank forced back to 1)
            for cut in ("last", "first"):
                r = copy.deepcopy(rec)
                sp = r["spec"]
                for key in ("rows", "cols", "layout", "vals", "dtype"):
                    if isinstance(sp.get(key), list):
                        sp[key] = sp[key][:-1] if cut == "last" else sp[key][1:]
                sp["ranks"] = (sp["ranks"][:-2] + [1]) if cut == "last" else ([1] + sp["ranks"][2:])
                out.append(r)
        for key in ("scale", "single"):
            if spec.get(key):
                r = copy.deepcopy(rec)
                del r["spec"][key]
                out.append(r)
        if spec.get("int_storage"):
            r = copy.deepcopy(rec)
            del r["spec"]["int_storage"]
            out.append(r)
        if spec.get("dtype") != "f8":
            r = copy.deepcopy(rec)
            r["spec"]["dtype"] = "f8"
            out.append(r)
            if isinstance(spec.get("dtype"), list):
                r = copy.deepcopy(rec)
                r["spec"]["dtype"] = "c16"
                out.append(r)
        lay = spec.get("layout") or []
        for i in range(len(lay)):
            if lay[i] != "C":
                r = copy.deepcopy(rec)
                r["spec"]["layout"][i] = "C"
                out.append(r)
        vals = spec.get("vals")
        if isinstance(vals, list):
            for i in range(len(vals)):
                if vals[i] != "normal":
                    r = copy.deepcopy(rec)
                    r["spec"]["vals"][i] = "normal"
                    out.append(r)
        for i in range(1, d):
            if spec["ranks"][i] > 1:
                r = copy.deepcopy(rec)
                r["spec"]["ranks"][i] -= 1
                out.append(r)
        for i in range(d):
            for key in ("rows", "cols"):
                if spec[key][i] > 1:
                    r = copy.deepcopy(rec)
                    r["spec"][key][i] -= 1
                    out.append(r)
    return out


def minimise(records, test, simplifier=generic_simplifier, max_tests=600):
    budget = [max_tests]
    recs = ddmin(records, test, budget)
    recs = simplify_records(recs, test, simplifier, budget)
    recs = ddmin(recs, test, budget)
    return recs, max_tests - budget[0]
