"""Dense reference model: a few dozen lines of NumPy, independent of the code under test.

A tensor train with cores G_k of shape (r_{k-1}, m_k, n_k, r_k) denotes the array
  D[a, i_1, j_1, ..., i_d, j_d, b] = sum G_1[a,i_1,j_1,:] ... G_d[:,i_d,j_d,b]
(boundary ranks are kept so that the factors returned by TT.svd have a value too).
TT.full / TT.matricize are never used: they are code under test.
"""
from . import env  # noqa: F401
import numpy as np

_einsum = env.REAL.einsum
_tensordot = env.REAL.tensordot
_svd = env.REAL.np_svd
_norm = env.REAL.np_norm


def dense_cores(cores):
    """Contract a list of 4-D cores; result shape (r0, m1, n1, ..., md, nd, rd)."""
    def up(c):
        c = np.asarray(c)
        if c.dtype == np.float32:
            return c.astype(np.float64)
        if c.dtype == np.complex64:
            return c.astype(np.complex128)
        if c.dtype.kind in "iub":
            return c.astype(np.float64)     # the model is a double-precision object whatever the storage dtype
        return c
    d = up(cores[0])
    for c in cores[1:]:
        d = _tensordot(d, up(c), axes=([d.ndim - 1], [0]))
    return np.ascontiguousarray(d)


def dense(t):
    return dense_cores(t.cores)


def as_operator(d, order):
    """(1, m1, n1, ..., md, nd, 1) -> (m1..md, n1..nd)."""
    a = d.reshape(d.shape[1:-1])
    perm = [2 * i for i in range(order)] + [2 * i + 1 for i in range(order)]
    return a.transpose(perm)


def as_matrix(d, order):
    a = as_operator(d, order)
    m = int(np.prod(a.shape[:order]))
    n = int(np.prod(a.shape[order:]))
    return a.reshape(m, n)


def meta(t):
    return (int(t.order), tuple(int(x) for x in t.row_dims), tuple(int(x) for x in t.col_dims),
            tuple(int(x) for x in t.ranks))


def structural_problem(t):
    """None if the TT is structurally consistent, else a short description of what is not."""
    try:
        cores = t.cores
        order = t.order
        row_dims, col_dims, ranks = t.row_dims, t.col_dims, t.ranks
    except AttributeError as e:
        return "missing attribute: %s" % e
    if not isinstance(cores, list):
        return "cores is %s, not a list" % type(cores).__name__
    try:
        if not (len(cores) == order == len(row_dims) == len(col_dims) == len(ranks) - 1):
            return "lengths disagree: cores=%d order=%r row_dims=%d col_dims=%d ranks=%d" % (
                len(cores), order, len(row_dims), len(col_dims), len(ranks))
    except TypeError as e:
        return "metadata not sized: %s" % e
    if order < 1:
        return "order %r" % (order,)
    for i, c in enumerate(cores):
        if not isinstance(c, np.ndarray):
            return "core %d is %s" % (i, type(c).__name__)
        if c.ndim != 4:
            return "core %d has ndim %d" % (i, c.ndim)
        want = (ranks[i], row_dims[i], col_dims[i], ranks[i + 1])
        try:
            ok = tuple(int(x) for x in c.shape) == tuple(int(x) for x in want)
        except (TypeError, ValueError):
            ok = False
        if not ok:
            return "core %d has shape %s but metadata says %s" % (i, tuple(c.shape), tuple(want))
    return None


class Snapshot(object):
    """Dense value plus shape metadata of one TT at one instant."""
    __slots__ = ("dense", "meta", "norm", "finite", "scale")

    def __init__(self, t):
        self.meta = meta(t)
        self.dense = dense(t)
        self.finite = bool(np.all(np.isfinite(self.dense)))
        self.norm = float(_norm(self.dense.ravel())) if self.finite else float("nan")
        # natural magnitude of rounding errors: the product of the core norms (>= ||T||_F).  A tensor whose value is
        # (nearly) zero by cancellation between O(1) cores is only defined up to ~eps * scale.
        sc = 1.0
        for c in t.cores:
            sc *= float(_norm(np.asarray(c).ravel()))
        self.scale = sc if np.isfinite(sc) else self.norm

    def floor(self, eps=1e-12):
        return eps * max(self.scale, self.norm)

    def differs(self, dense_after, tol, eps=1e-12):
        """||after - self|| beyond tol*||self|| + eps*scale ?  Returns (bool, error)."""
        if dense_after.shape != self.dense.shape or not np.all(np.isfinite(dense_after)):
            return True, float("inf")
        err = float(_norm((dense_after - self.dense).ravel()))
        return (not (err <= tol * self.norm + self.floor(eps))), err


def rel_diff(a, b):
    """||a-b||_F / max(||b||_F, tiny); inf if shapes differ or a is not finite."""
    if a.shape != b.shape:
        return float("inf")
    if not np.all(np.isfinite(a)):
        return float("inf")
    nb = float(_norm(b.ravel()))
    na = float(_norm((a - b).ravel()))
    if nb == 0.0:
        return 0.0 if na == 0.0 else float("inf")
    return na / nb


def unfolding(d, k):
    """Unfolding of a dense value (r0,m1,n1,...,md,nd,rd) after the k-th core (1 <= k <= d-1):
    rows = (r0, m1, n1, ..., mk, nk), columns = the rest."""
    rows = int(np.prod(d.shape[:1 + 2 * k]))
    return d.reshape(rows, -1)


def unfolding_sv(d, k):
    return _svd(unfolding(d, k), compute_uv=False)


def left_gram_defect(core):
    """|| Q^H Q - I ||_max for Q = core reshaped (r*m*n, r')."""
    r, m, n, r2 = core.shape
    q = np.asarray(core).reshape(r * m * n, r2)
    g = q.conj().T.dot(q)
    return float(np.max(np.abs(g - np.eye(r2)))) if r2 else 0.0


def right_gram_defect(core):
    r, m, n, r2 = core.shape
    q = np.asarray(core).reshape(r, m * n * r2)
    g = q.dot(q.conj().T)
    return float(np.max(np.abs(g - np.eye(r)))) if r else 0.0
