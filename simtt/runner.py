"""Batch runner: seeded search over histories and fault sequences on all cores, violation
minimisation, fresh-interpreter replay confirmation, known-findings classification, evidence.

Exit codes: 0 = property held on everything explored (possibly with KNOWN-FINDING lines),
1 = VIOLATION, 2 = harness trouble (time-outs, a replay that does not reproduce, a digest
mismatch in the built-in re-execution sample).  Harness trouble is never reported as a violation
and never as success.
"""
import os
import sys
import json
import time
import glob
import signal
import hashlib
import importlib
import subprocess
import faulthandler
import multiprocessing
from collections import Counter

from . import env
from .core import run_seed, jdump, H
from . import minimise as mini

MACHINE_OF = {"C03": "machine_sweep", "C04": "machine_sweep", "C05": "machine_sweep",
              "C06": "machine_pool", "C20": "machine_born"}

# runs per batch (fault-free, fault-injecting) and wall caps (seconds) per tier
TIERS = {
    "machine_sweep": {"quick": {"runs": (80000, 80000), "wall": 80, "chunk": 500},
                      "thorough": {"runs": (2000000, 2000000), "wall": 840, "chunk": 2000}},
    "machine_pool": {"quick": {"runs": (20000, 15000), "wall": 110, "chunk": 100},
                     "thorough": {"runs": (400000, 300000), "wall": 1100, "chunk": 250}},
    "machine_born": {"quick": {"runs": (14000, 0), "wall": 80, "chunk": 100},
                     "thorough": {"runs": (300000, 0), "wall": 800, "chunk": 250}},
}
RUN_TIMEOUT_S = int(os.environ.get("SIMTT_RUN_TIMEOUT_S", "120"))
REEXEC_EVERY = 97   # ~1 % of runs are executed twice in-process and their digests compared


_TEST_HOOK = os.environ.get("SIMTT_TEST_HOOK", "")   # "hang:<batch>:<index>" or "die:<batch>:<index>"


class RunTimeout(BaseException):
    pass


def _alarm(signum, frame):
    raise RunTimeout()


_QUIET = [False]


def _quiet_worker():
    """Workers compute with NaNs, singular systems etc. on purpose (legal outcomes); keep stderr readable."""
    if _QUIET[0]:
        return
    _QUIET[0] = True
    import warnings
    import numpy as _np
    warnings.simplefilter("ignore")
    _np.seterr(all="ignore")
    try:
        keep = os.dup(2)
        devnull = os.open(os.devnull, os.O_WRONLY)
        os.dup2(devnull, 2)          # LAPACK's XERBLA writes straight to fd 2
        os.close(devnull)
        _QUIET.append(os.fdopen(keep, "w"))      # keep the file object alive for faulthandler
        faulthandler.enable(file=_QUIET[-1])
    except OSError:
        faulthandler.enable()


def forked_call(fn, args, timeout):
    """Run fn(*args) in a forked child of the (pristine) calling process and return ("ok", result), ("died", code) or
    ("timeout", None).  Every history of machine A and every replay / minimisation test starts from a process image in
    which the system under test has never run, so module-level state inside scikit_tt (caches, memoised cores) cannot
    leak from one run into the next and a replay file is a pure function of its records; a run that hangs inside C code
    or kills its process costs exactly that run."""
    import pickle
    r, w = os.pipe()
    pid = os.fork()
    if pid == 0:
        code = 0
        try:
            os.close(r)
            signal.setitimer(signal.ITIMER_REAL, 0)
            out = pickle.dumps(fn(*args), protocol=pickle.HIGHEST_PROTOCOL)
            with os.fdopen(w, "wb") as f:
                f.write(out)
        except BaseException:  # noqa
            code = 17
            try:
                import traceback
                with os.fdopen(w, "wb") as f:
                    f.write(pickle.dumps({"__child_exception__": traceback.format_exc()[-1500:]}))
            except Exception:
                pass
        finally:
            os._exit(code)
    os.close(w)
    import select
    chunks = []
    t_end = time.time() + timeout
    status = "ok"
    with os.fdopen(r, "rb") as f:
        fd = f.fileno()
        while True:
            left = t_end - time.time()
            if left <= 0:
                status = "timeout"
                break
            ready, _, _ = select.select([fd], [], [], min(left, 1.0))
            if ready:
                b = os.read(fd, 1 << 20)
                if not b:
                    break
                chunks.append(b)
    if status == "timeout":
        try:
            os.kill(pid, signal.SIGKILL)
        except OSError:
            pass
    _, st = os.waitpid(pid, 0)
    if status == "timeout":
        return "timeout", None
    data = b"".join(chunks)
    if not data:
        return "died", st
    try:
        out = pickle.loads(data)
    except Exception:
        return "died", st
    if isinstance(out, dict) and "__child_exception__" in out:
        return "exception", out["__child_exception__"]
    return "ok", out


def machine(prop):
    return importlib.import_module("simtt." + MACHINE_OF[prop])


def batch_seed(verif_seed, prop, batch, index):
    return run_seed(verif_seed, prop + ":" + batch, index)


def _chunk(task, progress=None):
    prop, batch, verif_seed, start, count = task
    m = machine(prop)
    _quiet_worker()
    signal.signal(signal.SIGALRM, _alarm)
    agg = {"runs": 0, "ops": 0, "fired": Counter(), "probes": Counter(), "kernel_calls": Counter(),
           "trace_keys": set(), "states": set(), "viols": [], "timeouts": 0, "digest_mismatch": 0,
           "raised_ok": 0, "clock_reads": 0, "sim_clock_s": 0.0, "samples": [], "harness_errors": [],
           "pairs": set(), "digest_acc": hashlib.sha256(), "batch": batch, "extra": Counter()}
    faults = (batch == "fault")
    fork_runs = bool(getattr(m, "FORK_PER_RUN", False))
    for i in range(start, start + count):
        seed = batch_seed(verif_seed, prop, batch, i)
        if progress is not None:
            progress(i)
        if _TEST_HOOK and _TEST_HOOK == "%s:%s:%d" % (_TEST_HOOK.split(":")[0], batch, i):   # self-test of the pool only
            if _TEST_HOOK.startswith("hang"):
                time.sleep(3600)
            os._exit(3)
        signal.setitimer(signal.ITIMER_REAL, 0 if fork_runs else RUN_TIMEOUT_S)
        try:
            if fork_runs:
                st, r = forked_call(m.run_one, (prop, seed, faults), RUN_TIMEOUT_S)
                if st == "timeout":
                    raise RunTimeout()
                if st != "ok":
                    agg["harness_errors"].append("run batch=%s index=%d: child %s: %s" % (batch, i, st, str(r)[-600:]))
                    continue
                if i % REEXEC_EVERY == 0:
                    st2, r2 = forked_call(m.run_one, (prop, seed, faults), RUN_TIMEOUT_S)
                    if st2 != "ok" or r2["digest"] != r["digest"]:
                        agg["digest_mismatch"] += 1
                        agg["harness_errors"].append("digest mismatch batch=%s index=%d" % (batch, i))
            else:
                r = m.run_one(prop, seed, faults)
                if i % REEXEC_EVERY == 0:
                    r2 = m.run_one(prop, seed, faults)
                    if r2["digest"] != r["digest"]:
                        agg["digest_mismatch"] += 1
                        agg["harness_errors"].append("digest mismatch batch=%s index=%d" % (batch, i))
        except RunTimeout:
            agg["timeouts"] += 1
            agg["harness_errors"].append("timeout batch=%s index=%d" % (batch, i))
            continue
        except Exception as e:  # harness exception, classified apart from VIOLATION
            import traceback
            agg["harness_errors"].append("exception batch=%s index=%d: %s" % (batch, i, traceback.format_exc()[-1500:]))
            continue
        finally:
            signal.setitimer(signal.ITIMER_REAL, 0)
        agg["runs"] += 1
        agg["ops"] += r["ops"]
        agg["fired"].update(r["fired"])
        agg["probes"].update(r["probes"])
        agg["kernel_calls"].update(r.get("kernel_calls", {}))
        agg["raised_ok"] += r.get("raised_ok", 0)
        agg["clock_reads"] += r.get("clock_reads", 0)
        agg["sim_clock_s"] += r.get("sim_clock_s", 0.0)
        agg["extra"].update(r.get("extra", {}))
        agg["digest_acc"].update(r["digest"].encode())
        if r["trace_key"] is not None:
            agg["trace_keys"].add(r["trace_key"])
        agg["states"].update(r["states"])
        for p in r.get("pairs", ()):
            agg["pairs"].add(tuple(p))
        if r["viol"] is not None and len(agg["viols"]) < 40:
            agg["viols"].append({"batch": batch, "index": i, "seed": seed, "records": r["records"],
                                 "violation": r["viol"], "cfg": r["cfg"], "digest": r["digest"]})
        elif r["viol"] is not None:
            agg["extra"]["violations_not_kept"] += 1
        if len(agg["samples"]) < 1 and r["trace_key"] is not None and r["viol"] is None:
            agg["samples"].append({"batch": batch, "index": i, "seed": seed, "records": r["records"]})
    agg["digest_acc"] = agg["digest_acc"].hexdigest()[:16]
    return agg


# ---------------------------------------------------------------------------------------------------------------------
# Own worker pool.  concurrent.futures cannot kill one stuck worker: a run that spins inside LAPACK (C code, no Python
# bytecode boundary) is immune to SIGALRM and would block the whole check for ever.  Here every worker reports the index
# of the run it starts; a worker that makes no progress for RUN_HARD_S seconds, or dies, is killed / reaped, the run is
# recorded as harness trouble (never as a violation, never as success), the rest of its chunk is re-queued and a fresh
# worker is forked.
RUN_HARD_S = int(os.environ.get("SIMTT_RUN_HARD_S", "150"))


def _worker_main(conn):
    _quiet_worker()
    env.preload_sut()
    try:
        while True:
            task = conn.recv()
            if task is None:
                break
            try:
                res = _chunk(task, progress=lambda i: conn.send(("run", i)))
                conn.send(("done", res))
            except BaseException as e:  # noqa
                import traceback
                conn.send(("error", traceback.format_exc()[-1500:]))
    except (EOFError, KeyboardInterrupt, BrokenPipeError):
        pass
    finally:
        os._exit(0)


class _Worker(object):
    def __init__(self, ctx):
        self.conn, child = ctx.Pipe()
        self.proc = ctx.Process(target=_worker_main, args=(child,), daemon=True)
        self.proc.start()
        child.close()
        self.task = None
        self.index = None
        self.t_progress = time.time()


def run_tasks(tasks, workers, deadline, on_result, on_trouble):
    """Run _chunk over `tasks` on `workers` forked processes until done or `deadline`; returns #tasks not started."""
    from multiprocessing.connection import wait as conn_wait
    ctx = multiprocessing.get_context("fork")
    queue = list(tasks)
    pool = [_Worker(ctx) for _ in range(workers)]
    try:
        while True:
            for w in pool:
                if w.task is None and queue and time.time() <= deadline:
                    w.task = queue.pop(0)
                    w.index = w.task[3]
                    w.t_progress = time.time()
                    w.conn.send(w.task)
            busy = [w for w in pool if w.task is not None]
            if not busy:
                break
            ready = conn_wait([w.conn for w in busy], timeout=1.0)
            now = time.time()
            for w in busy:
                dead = False
                if w.conn in ready:
                    try:
                        while w.conn.poll():
                            kind, val = w.conn.recv()
                            if kind == "run":
                                w.index = val
                                w.t_progress = now
                            elif kind == "done":
                                on_result(w.task, val)
                                w.task = None
                                break
                            else:
                                on_trouble("worker exception in chunk %s: %s" % (w.task[1:], val))
                                w.task = None
                                break
                    except (EOFError, OSError):
                        dead = True
                        on_trouble("worker died (exit code %s) in run batch=%s index=%s" % (w.proc.exitcode, w.task[1], w.index))
                elif now - w.t_progress > RUN_HARD_S:
                    dead = True
                    on_trouble("run batch=%s index=%s made no progress for %d s (stuck outside the interpreter); worker killed" % (
                        w.task[1], w.index, RUN_HARD_S))
                if dead:
                    try:
                        w.proc.kill()
                    except Exception:
                        pass
                    w.proc.join(5)
                    prop, batch, vs, start, count = w.task
                    rest = start + count - (w.index + 1)
                    if rest > 0:
                        queue.insert(0, (prop, batch, vs, w.index + 1, rest))
                    i = pool.index(w)
                    try:
                        w.conn.close()
                    except Exception:
                        pass
                    pool[i] = _Worker(ctx)
    finally:
        for w in pool:
            try:
                w.conn.send(None)
            except Exception:
                pass
        for w in pool:
            w.proc.join(2)
            if w.proc.is_alive():
                w.proc.kill()
    return len(queue)


def out_root():
    """Where evidence and replay files go: /verif, or SIMTT_OUT for self-test runs against scratch copies."""
    return os.environ.get("SIMTT_OUT") or env.VERIF


def load_known():
    p = os.path.join(env.VERIF, "known_findings.json")
    try:
        with open(p) as f:
            return json.load(f).get("findings", [])
    except FileNotFoundError:
        return []


def known_match(known, prop, signature):
    for k in known:
        if k.get("property") == prop and k.get("status") == "known" and \
                (k.get("signature") == signature or signature in k.get("signatures", ())):
            return k
    return None


def replay_fresh(m, prop, records):
    """Replay in a forked child of this process (which never ran the system under test)."""
    st, r = forked_call(m.replay_records, (prop, records), RUN_TIMEOUT_S)
    if st != "ok":
        return {"digest": None, "viol": None, "fired": {}, "trouble": "%s %s" % (st, str(r)[-300:])}
    return r


def _replay_test(m, prop, signature):
    def test(records):
        r = replay_fresh(m, prop, records)
        return r["viol"] is not None and r["viol"]["property"] == prop and r["viol"]["signature"] == signature
    return test


def write_replay(prop, m, v, records, viol, digest, minimised_from, tests):
    body = {
        "property": prop, "machine": m.NAME, "batch": v["batch"], "verif_seed": v.get("verif_seed"),
        "run_index": v["index"], "run_seed": v["seed"], "config": v.get("cfg"), "records": records,
        "violation": viol, "event_digest": digest, "minimised_from_records": minimised_from,
        "minimisation_tests": tests, "versions": env.versions(), "repo_head": env.repo_head(),
    }
    ident = hashlib.sha256(jdump([prop, viol["signature"], records], sort_keys=True).encode()).hexdigest()[:12]
    d = os.path.join(out_root(), "replays")
    os.makedirs(d, exist_ok=True)
    path = os.path.join(d, "%s_%s.json" % (prop, ident))
    with open(path, "w") as f:
        f.write(jdump(body, indent=1, sort_keys=True))
    return path


def fresh_replay(path, timeout=300):
    """Re-execute a replay file in a fresh interpreter (different PYTHONHASHSEED); returns dict or None."""
    e = dict(os.environ)
    e["PYTHONHASHSEED"] = "12345"
    e["SIMTT_REEXEC"] = "1"
    try:
        p = subprocess.run([sys.executable, "-m", "simtt.cli", "replay", path, "--json"], cwd=env.VERIF, env=e,
                           capture_output=True, text=True, timeout=timeout)
    except subprocess.TimeoutExpired:
        return None
    for line in p.stdout.splitlines():
        if line.startswith("REPLAY-JSON "):
            try:
                return json.loads(line[len("REPLAY-JSON "):])
            except ValueError:
                return None
    return None


def regression_corpus(prop, m, out):
    """Replay files of repaired defects: a fixed entry suppresses nothing -- if one fails again it is a VIOLATION."""
    bad = []
    files = sorted(glob.glob(os.path.join(env.VERIF, "replays", "regress", prop + "_*.json")))
    for path in files:
        with open(path) as f:
            body = json.load(f)
        r = replay_fresh(m, prop, body["records"])
        if r["viol"] is not None and r["viol"]["property"] == prop:
            bad.append((path, r["viol"]))
    out["regression_replays"] = len(files)
    return bad


def run_check(prop, tier, verif_seed, workers=None, runs_override=None, wall_override=None):
    t0 = time.time()
    m = machine(prop)
    mname = MACHINE_OF[prop]
    tcfg = dict(TIERS[mname][tier])
    if runs_override is not None:
        tcfg["runs"] = runs_override
    if wall_override is not None:
        tcfg["wall"] = wall_override
    workers = workers or min(16, os.cpu_count() or 1)
    os.environ["SIMTT_TIER"] = tier     # read by the machines' swarm configuration (deeper bounds in "thorough")
    env.preload_sut()
    print("CHECK property=%s tier=%s VERIF_SEED=%d machine=%s workers=%d repo=%s" % (
        prop, tier, verif_seed, m.NAME, workers, env.REPO))
    sys.stdout.flush()
    known = load_known()
    info = {}
    exit_code = 0
    printed = []

    # 0. regression corpus of repaired defects
    for path, viol in regression_corpus(prop, m, info):
        rel = os.path.relpath(path, env.VERIF)
        print("VIOLATION property=%s replay=%s" % (prop, rel))
        print("  regression: %s (%s)" % (viol["signature"], viol["clause"]))
        printed.append(viol["signature"])
        exit_code = 1

    # 1. seeded search
    tasks = []
    for batch, n in (("nofault", tcfg["runs"][0]), ("fault", tcfg["runs"][1])):
        for s in range(0, n, tcfg["chunk"]):
            tasks.append((prop, batch, verif_seed, s, min(tcfg["chunk"], n - s)))
    # interleave the two batches so that a wall cap cuts both proportionally
    nf = [t for t in tasks if t[1] == "nofault"]
    ff = [t for t in tasks if t[1] == "fault"]
    tasks = []
    while nf or ff:
        if nf:
            tasks.append(nf.pop(0))
        if ff:
            tasks.append(ff.pop(0))
    total = {"runs": Counter(), "ops": 0, "fired": Counter(), "probes": Counter(), "kernel_calls": Counter(),
             "trace_keys": set(), "states": set(), "viols": [], "timeouts": 0, "digest_mismatch": 0, "raised_ok": 0,
             "clock_reads": 0, "sim_clock_s": 0.0, "samples": [], "harness_errors": [], "pairs": set(),
             "extra": Counter(), "chunks_skipped_by_wall_cap": 0, "chunk_digests": {}}
    deadline = t0 + tcfg["wall"]
    broken = None

    def on_result(task, a):
        total["runs"][a["batch"]] += a["runs"]
        for k in ("ops", "timeouts", "digest_mismatch", "raised_ok", "clock_reads", "sim_clock_s"):
            total[k] += a[k]
        for k in ("fired", "probes", "kernel_calls", "extra"):
            total[k].update(a[k])
        total["trace_keys"] |= a["trace_keys"]
        total["states"] |= a["states"]
        total["pairs"] |= a["pairs"]
        total["viols"].extend(a["viols"])
        total["harness_errors"].extend(a["harness_errors"])
        if len(total["samples"]) < 5:
            total["samples"].extend(a["samples"])
        total["chunk_digests"]["%s:%d" % (task[1], task[3])] = a["digest_acc"]

    total["chunks_skipped_by_wall_cap"] = run_tasks(tasks, workers, deadline, on_result, total["harness_errors"].append)
    search_wall = time.time() - t0

    # 2. violations: group, minimise, confirm in a fresh interpreter, classify
    own = [v for v in total["viols"] if v["violation"]["property"] == prop]
    other = Counter("%s %s" % (v["violation"]["property"], v["violation"]["signature"]) for v in total["viols"]
                    if v["violation"]["property"] != prop)
    by_sig = {}
    for v in own:
        by_sig.setdefault(v["violation"]["signature"], []).append(v)
    known_hit = Counter()
    reported = []
    for sig in sorted(by_sig):
        k = known_match(known, prop, sig)
        if k is not None:
            known_hit[sig] = len(by_sig[sig])
            print("KNOWN-FINDING: property=%s %s -- %s (hit %d times)" % (prop, sig, k.get("what", ""), len(by_sig[sig])))
            continue
        if sig in printed:
            continue
        if len(reported) >= 16:
            print("NOTE further distinct violation signature not minimised: %s" % sig)
            continue
        v = min(by_sig[sig], key=lambda x: (len(x["records"]), x["index"]))
        v["verif_seed"] = verif_seed
        test = _replay_test(m, prop, sig)
        if not test(v["records"]):
            total["harness_errors"].append("violation %s of run %s/%d does not reproduce in-process" % (sig, v["batch"], v["index"]))
            continue
        recs, ntests = mini.minimise(v["records"], test, m.simplifier, max_tests=400 if tier == "quick" else 1500)
        rr = replay_fresh(m, prop, recs)
        if rr["viol"] is None:
            total["harness_errors"].append("minimised replay of %s does not reproduce (%s)" % (sig, rr.get("trouble")))
            continue
        path = write_replay(prop, m, v, recs, rr["viol"], rr["digest"], len(v["records"]), ntests)
        fr = fresh_replay(path)
        rel = os.path.relpath(path, env.VERIF) if out_root() == env.VERIF else path
        if fr is None or fr.get("signature") != sig or fr.get("digest") != rr["digest"]:
            total["harness_errors"].append("replay %s did not reproduce in a fresh interpreter: %r" % (rel, fr))
            continue
        reported.append((sig, rel, len(by_sig[sig]), len(recs)))
        print("VIOLATION property=%s replay=%s" % (prop, rel))
        print("  signature=%s occurrences=%d minimised_records=%d (from %d) first_seen=batch:%s index:%d VERIF_SEED=%d" % (
            sig, len(by_sig[sig]), len(recs), len(v["records"]), v["batch"], v["index"], verif_seed))
        print("  detail=%s" % jdump(rr["viol"]["detail"])[:600])
        exit_code = 1
    if broken:
        total["harness_errors"].append(broken)
    if total["harness_errors"] and exit_code == 0:
        exit_code = 2
    n_runs = sum(total["runs"].values())
    if n_runs == 0 and exit_code == 0:
        exit_code = 2
        total["harness_errors"].append("no run completed")

    # 3. evidence
    wall = time.time() - t0
    hours = max(search_wall, 1e-9) / 3600.0
    m_extra = m.evidence_extra(total) if hasattr(m, "evidence_extra") else {}
    ev = {
        "property_id": prop, "tier": tier, "seed": int(verif_seed), "level": "exploration",
        "coverage": {
            "evaluations": int(n_runs),
            "distinct_nontrivial": int(len(total["trace_keys"])),
            "rule": m.RULE,
            "samples": total["samples"][:5],
            "runs_by_batch": dict(total["runs"]),
            "ops_executed": int(total["ops"]),
            "runs_per_hour": int(n_runs / hours),
            "ops_per_hour": int(total["ops"] / hours),
            "seeds": {"VERIF_SEED": int(verif_seed), "derivation": "run seed = H('run', VERIF_SEED, '<property>:<batch>', index)",
                      "index_ranges": {b: [0, int(n)] for b, n in total["runs"].items()}},
            "simulated_clock_s": round(total["sim_clock_s"], 3),
            "simulated_clock_note": "scikit_tt has no timers or deadlines; the fake clock is only read by utils.progress, so simulated time is immaterial",
            "clock_reads": int(total["clock_reads"]),
            "faults_fired": dict(total["fired"]),
            "ops_that_raised_legally_under_faults": int(total["raised_ok"]),
            "probes": dict(total["probes"]),
            "kernel_calls_intercepted": dict(total["kernel_calls"]),
            "distinct_abstract_states": int(len(total["states"])),
            "components": m.COMPONENTS,
            "known_findings_hit": dict(known_hit),
            "violations_of_other_properties_seen": dict(other),
            "new_violations": [{"signature": s, "replay": r, "occurrences": n, "records": k} for s, r, n, k in reported],
            "timeouts": int(total["timeouts"]),
            "digest_mismatches_in_reexecution_sample": int(total["digest_mismatch"]),
            "harness_errors": total["harness_errors"][:10],
            "chunks_skipped_by_wall_cap": int(total["chunks_skipped_by_wall_cap"]),
            "batch_digest": hashlib.sha256(jdump(sorted(total["chunk_digests"].items())).encode()).hexdigest()[:16],
            "regression_replays_executed": info.get("regression_replays", 0),
            "workers": workers,
        },
        "assumptions": [
            "oracle = dense einsum/tensordot contraction and numpy.linalg (svd, pinv, norm) captured before any seam is installed",
            "bit-reproducibility relies on single-threaded OpenBLAS (OPENBLAS_NUM_THREADS=1) on this machine",
            "faults are faithful: a gesdd failure is injected only where gesdd iterates (min(m,n)>=2) and only after the real routine ran, so buffers are destroyed exactly when the installed SciPy destroys them",
            "sampling, not proof: a clean batch is evidence",
        ],
        "wall_s": round(wall, 2),
        "violations": len(reported) + (1 if printed else 0) * len(printed),
    }
    ev["coverage"].update(m_extra)
    os.makedirs(os.path.join(out_root(), "evidence"), exist_ok=True)
    with open(os.path.join(out_root(), "evidence", prop + ".json"), "w") as f:
        f.write(jdump(ev, indent=1, sort_keys=True))
    print("SUMMARY property=%s runs=%d (nofault=%d fault=%d) ops=%d distinct_nontrivial=%d states=%d faults_fired=%s "
          "known=%d new=%d harness_errors=%d search=%.1fs wall=%.1fs exit=%d" % (
              prop, n_runs, total["runs"].get("nofault", 0), total["runs"].get("fault", 0), total["ops"],
              len(total["trace_keys"]), len(total["states"]), dict(total["fired"]), sum(known_hit.values()),
              len(reported), len(total["harness_errors"]), search_wall, wall, exit_code))
    for h in total["harness_errors"][:5]:
        print("HARNESS-ERROR %s" % h.replace("\n", " | ")[:800])
    return exit_code
