"""Seams the simulator owns (DESIGN section 2): LAPACK-level kernels, RNG, clock, stdout.

All seams are plain module-attribute patches looked up at call time by scikit_tt; no hook
inside /repo is needed.  A kernel call counts as an event (and is eligible for a fault) only
when the *calling frame* belongs to a scikit_tt.* module, so SciPy's internal use of the
same entry points and the oracle's use of NumPy are never touched.
"""
import sys
import errno
from collections import Counter

from . import env  # noqa: F401
import numpy as np
import scipy.linalg
import scipy.sparse.linalg

LinAlgError = np.linalg.LinAlgError

# (module object, attribute, kernel name)
_KERNELS = [
    (scipy.linalg, "svd", "sp.svd"),
    (scipy.linalg, "qr", "sp.qr"),
    (scipy.linalg, "rq", "sp.rq"),
    (scipy.linalg, "solve", "sp.solve"),
    (scipy.linalg, "lu_factor", "sp.lu_factor"),
    (scipy.linalg, "lu_solve", "sp.lu_solve"),
    (scipy.linalg, "eig", "sp.eig"),
    (scipy.linalg, "eigh", "sp.eigh"),
    (scipy.linalg, "expm", "sp.expm"),
    (scipy.linalg, "lstsq", "sp.lstsq"),
    (scipy.linalg, "pinv", "sp.pinv"),
    (np.linalg, "solve", "np.solve"),
    (np.linalg, "inv", "np.inv"),
    (np.linalg, "eig", "np.eig"),
    (np.linalg, "svd", "np.svd"),
    (np.linalg, "pinv", "np.pinv"),
    (np.linalg, "lstsq", "np.lstsq"),
    (scipy.sparse.linalg, "eigs", "arpack.eigs"),
]

# kernels a fault of kind F-kernel may hit (everything without a recovery path)
FAULTABLE = ("sp.solve", "sp.lu_factor", "sp.lu_solve", "sp.eig", "sp.eigh", "sp.lstsq", "np.solve",
             "np.inv", "np.eig", "arpack.eigs", "sp.qr", "sp.rq", "sp.svd/gesvd", "np.svd", "sp.expm",
             "expm_multiply")


def _nan_equal(a, b):
    try:
        return bool(np.array_equal(a, b, equal_nan=True))
    except TypeError:
        return bool(np.array_equal(a, b))


class FakeClock(object):
    """Stand-in for the `time` module objects bound inside scikit_tt modules."""

    def __init__(self):
        self.now = 1.0e9
        self.reads = 0
        self.plan = None  # python Random for jumps, or None
        self.jumps = 0

    def time(self):
        self.reads += 1
        if self.plan is not None:
            u = self.plan.random()
            if u < 0.02:
                self.now -= 3600.0  # clock stepped backwards
                self.jumps += 1
            elif u < 0.04:
                self.now += 1.0e9  # huge forward jump
                self.jumps += 1
            else:
                self.now += self.plan.random() * 0.01
        else:
            self.now += 0.001
        return self.now

    def sleep(self, s):  # nothing in scikit_tt sleeps; kept so a refactoring that does stays simulated
        self.now += max(0.0, float(s))

    def perf_counter(self):
        return self.time()

    def process_time(self):
        return self.time()


class Sink(object):
    """In-memory stdout that can fail on its n-th write (F-stdout)."""

    def __init__(self):
        self.writes = 0
        self.bytes = 0
        self.fail_at = None
        self.fail_errno = errno.EPIPE
        self.failed = 0

    def write(self, s):
        self.writes += 1
        if self.fail_at is not None and self.writes >= self.fail_at:
            self.failed += 1
            self.fail_at = None
            if self.fail_errno == errno.EPIPE:
                raise BrokenPipeError(errno.EPIPE, "simulated: broken pipe")
            raise OSError(self.fail_errno, "simulated: write failed")
        self.bytes += len(s)
        return len(s)

    def flush(self):
        pass

    def isatty(self):
        return False


class Seams(object):
    """Installs/removes all seams and dispatches faults for the op in progress."""

    def __init__(self, probes=None):
        self.probes = probes if probes is not None else Counter()
        self.fired = Counter()
        self.calls = Counter()        # intercepted kernel calls, whole run
        self.installed = False
        self._saved = []
        self.enabled = False          # only true while an op of the system under test runs
        self.plan = []                # fault records of the op in progress
        self.op_counts = Counter()    # per-op counters keyed by kernel name (eligible calls)
        self.kernel_events = []       # compact per-op kernel trace (for the event log)
        self.live = None              # callback -> iterable of (tag, ndarray) live core buffers
        self._pending_retry_fault = False
        self.clock = FakeClock()
        self.sink = Sink()
        self.rng_plan = None          # callable(shape)->ndarray or None (machine C)
        self.rng_requests = []
        self._real_stdout = None
        self.op_seed = 0

    # ---------------------------------------------------------------- install
    def install(self):
        if self.installed:
            return
        for mod, attr, kname in _KERNELS:
            real = getattr(mod, attr)
            self._saved.append((mod, attr, real))
            setattr(mod, attr, self._wrap(kname, real))
        # expm_multiply is bound by from-import inside ode.py
        try:
            import scikit_tt.solvers.ode as ode
            real = ode.expm_multiply
            self._saved.append((ode, "expm_multiply", real))
            ode.expm_multiply = self._wrap("expm_multiply", real)
        except Exception:
            self.probes["seam_missing:expm_multiply"] += 1
        # clock
        for modname, attr in (("scikit_tt.utils", "time"), ("scikit_tt.tensor_train", "_time"),
                              ("scikit_tt.solvers.ode", "_time"), ("scikit_tt.data_driven.regression", "_time"),
                              ("scikit_tt.data_driven.transform", "_time")):
            try:
                mod = __import__(modname, fromlist=["x"])
                if hasattr(mod, attr):
                    self._saved.append((mod, attr, getattr(mod, attr)))
                    setattr(mod, attr, self.clock)
                else:
                    self.probes["seam_missing:%s.%s" % (modname, attr)] += 1
            except Exception:
                self.probes["seam_missing:%s" % modname] += 1
        # rng
        self._saved.append((np.random, "rand", np.random.rand))
        np.random.rand = self._wrap_rand(env.REAL.rand)
        self.installed = True

    def uninstall(self):
        for mod, attr, real in reversed(self._saved):
            setattr(mod, attr, real)
        self._saved = []
        self.installed = False
        self.enabled = False

    # ---------------------------------------------------------------- per op
    def begin_op(self, faults=(), stdout=True, seed=0):
        self.op_seed = int(seed)
        self._eigs_n = 0
        self.plan = [dict(f) for f in faults]
        self.op_counts = Counter()
        self.kernel_events = []
        self._pending_retry_fault = False
        self.sink.fail_at = None
        for f in self.plan:
            if f.get("kind") == "F-stdout":
                self.sink.fail_at = self.sink.writes + int(f.get("nth", 1))
                self.sink.fail_errno = errno.ENOSPC if f.get("errno") == "ENOSPC" else errno.EPIPE
        if stdout:
            self._real_stdout = sys.stdout
            sys.stdout = self.sink
        self.enabled = True

    def end_op(self):
        self.enabled = False
        if self._real_stdout is not None:
            sys.stdout = self._real_stdout
            self._real_stdout = None
        if self.sink.failed:
            self.fired["F-stdout"] += self.sink.failed
            self.kernel_events.append(("stdout", None, "F-stdout", "write#%d" % self.sink.writes))
            self.sink.failed = 0
        ev = self.kernel_events
        self.kernel_events = []
        return ev

    # ---------------------------------------------------------------- kernels
    def _wrap(self, kname, real):
        seam = self

        def kernel(*a, **k):
            if not seam.enabled:
                return real(*a, **k)
            mod = sys._getframe(1).f_globals.get("__name__", "")
            if not mod.startswith("scikit_tt"):
                return real(*a, **k)
            return seam._on_kernel(kname, real, a, k, mod)

        kernel.__name__ = getattr(real, "__name__", kname)
        kernel.__wrapped__ = real
        return kernel

    def _on_kernel(self, kname, real, a, k, mod):
        a0 = a[0] if a else None
        full = kname
        shape = None
        if kname == "sp.svd":
            full = "sp.svd/" + str(k.get("lapack_driver", "gesdd"))
        if isinstance(a0, np.ndarray):
            shape = tuple(a0.shape)
        self.calls[full] += 1
        if kname == "arpack.eigs" and k.get("rng") is None:
            # SciPy >= 1.17 restarts ARPACK from numpy.random.default_rng(None), i.e. OS entropy: a source of
            # nondeterminism behind a dependency.  The simulator owns it: a Generator derived from the op's seed.
            k = dict(k)
            self._eigs_n += 1
            k["rng"] = np.random.default_rng([self.op_seed & 0xFFFFFFFF, self._eigs_n])
            self.probes["arpack_rng_owned"] += 1
        if kname in ("expm_multiply", "sp.expm") and isinstance(a0, np.ndarray) and a0.ndim == 2 and a0.size:
            # step cap: the cost of scaling-and-squaring grows with ||A||; a Krylov breakdown (beta ~ 1e-16) makes
            # ||A|| ~ 1e16 (or NaN) and the call would run for hours.  The simulator bounds it: the call raises.
            with np.errstate(all="ignore"):
                nrm = float(np.max(np.sum(np.abs(a0), axis=0)))
            if not (nrm <= 2.0e2):  # also catches NaN/inf
                self.probes["work_budget_cut:" + kname] += 1
                self.kernel_events.append((full, shape, "budget-cut"))
                raise LinAlgError("simulated: work budget of %s exceeded (||A||_1 = %.3g)" % (kname, nrm))
        if kname != "expm_multiply":
            # Non-finite input to a LAPACK/ARPACK-level kernel called with check_finite=False: with SciPy 1.18.1 /
            # OpenBLAS this is not merely "garbage out" -- scipy.linalg.eig writes past the end of a heap block
            # (valgrind: transform_eigvecs) and the process dies later in free(); gesvd on a 4x4 matrix holding +-inf
            # spins inside dbdsqr for minutes (observed with gdb), which no Python-level alarm can interrupt.  A dead or
            # hung process cannot be simulated further, so the seam answers what check_finite=True would have answered.
            for x in a[:2]:
                if isinstance(x, np.ndarray) and x.dtype.kind in "fc" and x.size and not np.all(np.isfinite(x)):
                    self.probes["nonfinite_input_refused:" + kname] += 1
                    self.kernel_events.append((full, shape, "refused-nonfinite"))
                    raise ValueError("array must not contain infs or NaNs (simulated check_finite)")
        if kname == "sp.solve" and k.get("overwrite_a"):
            # SciPy 1.18.1: scipy.linalg.solve(A, b, overwrite_a=True) with an F-contiguous, numerically singular A
            # segfaults (reproduced stand-alone with a finite 3x3 matrix of rank 2).  scikit_tt only ever passes a
            # temporary micro-matrix here, so the seam drops overwrite_a; overwrite_b is kept.
            k = dict(k)
            k["overwrite_a"] = False
            self.probes["solve_overwrite_a_stripped"] += 1
        overwrite = bool(k.get("overwrite_a") or k.get("overwrite_b"))
        before = None
        if overwrite and isinstance(a0, np.ndarray):
            before = a0.copy()
        # ---- decide on a fault for this call
        eligible = True
        if full == "sp.svd/gesdd":
            eligible = shape is not None and len(shape) == 2 and min(shape) >= 2
        fault = None
        if self._pending_retry_fault and full == "sp.svd/gesvd":
            fault = {"kind": "F-gesvd"}
            self._pending_retry_fault = False
        elif eligible:
            self.op_counts[full] += 1
            self.op_counts["*"] += 1
            nth = self.op_counts[full]
            for f in self.plan:
                if f.get("done"):
                    continue
                if f.get("kind") == "F-any" and int(f.get("nth", 1)) == self.op_counts["*"]:
                    fault = f       # the k-th intercepted kernel call of this op, whatever kernel it is
                    break
                if f.get("kind") == "F-gesdd" and full == "sp.svd/gesdd" and int(f.get("nth", 1)) == nth:
                    fault = f
                    break
                if f.get("kind") == "F-kernel" and f.get("kernel") == full and int(f.get("nth", 1)) == nth:
                    fault = f
                    break
        if full != "sp.svd/gesvd":
            self._pending_retry_fault = False
        # ---- run the real routine first: a buffer SciPy works on in place is destroyed exactly as in reality
        try:
            out = real(*a, **k)
        except Exception as e:  # a genuine failure of the real kernel
            self.kernel_events.append((full, shape, "raised:" + type(e).__name__))
            raise
        wrote = False
        if before is not None:
            wrote = not _nan_equal(before, a0)
            if wrote:
                self.probes["kernel_wrote_in_place"] += 1
                if self.live is not None:
                    for tag, buf in self.live():
                        if np.shares_memory(a0, buf):
                            self.probes["inplace_write_on_live_core"] += 1
                            break
            else:
                self.probes["overwrite_requested_but_argument_survived"] += 1
        if fault is not None:
            fault["done"] = True
            kind = fault["kind"]
            self.fired[kind] += 1
            if wrote:
                self.probes["fault_after_inplace_write"] += 1
            self.kernel_events.append((full, shape, kind, "wrote" if wrote else "kept"))
            if kind == "F-any" and full == "sp.svd/gesdd":
                kind = "F-gesdd"    # a failing gesdd is a failing gesdd, however it was addressed
                self.fired["F-any"] -= 1
                self.fired["F-gesdd"] += 1
                self.kernel_events[-1] = (full, shape, kind, "wrote" if wrote else "kept")
            if kind == "F-gesdd":
                self.probes["retry_path_armed"] += 1
                if fault.get("double"):
                    self._pending_retry_fault = True
                raise LinAlgError("SVD did not converge (simulated gesdd failure)")
            if kind == "F-gesvd":
                self.probes["double_fault_raised"] += 1
                raise LinAlgError("SVD did not converge (simulated gesvd failure)")
            if full == "arpack.eigs":
                raise scipy.sparse.linalg.ArpackNoConvergence("ARPACK error -1: no convergence (simulated)",
                                                               np.zeros(0), np.zeros((0, 0)))
            raise LinAlgError("simulated failure of %s" % full)
        self.kernel_events.append((full, shape, "ok", "wrote" if wrote else "kept"))
        if full == "sp.svd/gesvd" and self.kernel_events and len(self.kernel_events) >= 2 \
                and self.kernel_events[-2][2] == "F-gesdd":
            self.probes["retry_path_taken"] += 1
        return out

    # ---------------------------------------------------------------- rng
    def _wrap_rand(self, real):
        seam = self

        def rand(*shape):
            if not seam.enabled or seam.rng_plan is None:
                return real(*shape)
            mod = sys._getframe(1).f_globals.get("__name__", "")
            if not mod.startswith("scikit_tt"):
                return real(*shape)
            seam.rng_requests.append(tuple(int(s) for s in shape))
            return seam.rng_plan(tuple(int(s) for s in shape))

        rand.__wrapped__ = real
        return rand
