"""Self-tests of the machinery itself (DESIGN section 7, "No silent passes").

determinism : many seeds, each executed in several fresh interpreters (different PYTHONHASHSEED, different
              worker counts); the per-run event-log digests must be identical everywhere.
sensitivity : break a property on purpose in a scratch copy of the package (outside /repo and /verif, removed
              afterwards) and demand that the property's check reports a VIOLATION within a small budget.
"""
import os
import sys
import json
import time
import shutil
import hashlib
import tempfile
import subprocess
import multiprocessing
from concurrent.futures import ProcessPoolExecutor

from . import env


# ====================================================================== determinism
def _digest_task(task):
    prop, batch, start, count = task
    from . import runner
    runner._quiet_worker()
    m = runner.machine(prop)
    out = []
    for i in range(start, start + count):
        r = m.run_one(prop, runner.batch_seed(0, prop, batch, i), batch == "fault")
        out.append((i, r["digest"], r["viol"]["signature"] if r["viol"] else None))
    return out


def digests_cmd(argv):
    """python -m simtt.cli digests <prop> <batch> <n> <workers>  -> prints one sha over all (index, digest) pairs"""
    prop, batch, n, workers = argv[0], argv[1], int(argv[2]), int(argv[3])
    chunk = max(1, n // (4 * workers))
    tasks = [(prop, batch, s, min(chunk, n - s)) for s in range(0, n, chunk)]
    if workers == 1:
        res = [_digest_task(t) for t in tasks]
    else:
        with ProcessPoolExecutor(max_workers=workers, mp_context=multiprocessing.get_context("fork")) as ex:
            res = list(ex.map(_digest_task, tasks))
    flat = sorted(x for r in res for x in r)
    h = hashlib.sha256(json.dumps(flat).encode()).hexdigest()
    print("DIGESTS %s %s n=%d workers=%d hashseed=%s sha=%s violations=%d" % (
        prop, batch, n, workers, os.environ.get("PYTHONHASHSEED"), h, sum(1 for x in flat if x[2])))
    if "--dump" in argv:
        for x in flat:
            print("D", x[0], x[1], x[2])
    return 0


def determinism(argv):
    n = 2000
    props = ["C03", "C04", "C05", "C06", "C20"]
    for a in argv:
        if a.startswith("--n="):
            n = int(a[4:])
        if a.startswith("--props="):
            props = a[8:].split(",")
    bad = 0
    t0 = time.time()
    for prop in props:
        batches = ["nofault"] if prop == "C20" else ["nofault", "fault"]
        nn = n if prop not in ("C06", "C20") else max(200, n // 2)
        for batch in batches:
            shas = {}
            for hs, workers in (("0", 16), ("4242", 4), ("99", 1 if nn <= 600 else 7)):
                e = dict(os.environ)
                e["PYTHONHASHSEED"] = hs
                p = subprocess.run([sys.executable, "-m", "simtt.cli", "digests", prop, batch, str(nn), str(workers)],
                                   cwd=env.VERIF, env=e, capture_output=True, text=True, timeout=3600)
                line = [l for l in p.stdout.splitlines() if l.startswith("DIGESTS")]
                if not line:
                    print("DETERMINISM-ERROR %s %s: no output (rc=%s) %s" % (prop, batch, p.returncode, p.stderr[-400:]))
                    bad += 1
                    continue
                sha = line[0].split("sha=")[1].split()[0]
                shas[(hs, workers)] = sha
                print(line[0])
            if len(set(shas.values())) != 1:
                print("DETERMINISM-MISMATCH %s %s %s" % (prop, batch, shas))
                bad += 1
    print("DETERMINISM %s  (%d seeds x 3 fresh interpreters per property/batch, %.0f s)" % ("OK" if not bad else "FAILED", n, time.time() - t0))
    return 0 if not bad else 2


# ====================================================================== sensitivity
TT = "scikit_tt/tensor_train.py"
UT = "scikit_tt/utils.py"
QC = "scikit_tt/quantum_computation.py"
SLE = "scikit_tt/solvers/sle.py"
EVP = "scikit_tt/solvers/evp.py"
ODE = "scikit_tt/solvers/ode.py"
TDMD = "scikit_tt/data_driven/tdmd.py"

# (name, property whose check must fire, file, old, new, count of occurrences to replace (0 = all), runs "nofault,fault")
MUTANTS = [
    # ---- C03
    ("c03_drop_diag_s", "C03", TT, "self.cores[i + 1] = np.tensordot(np.diag(s).dot(v), self.cores[i + 1], axes=(1, 0))",
     "self.cores[i + 1] = np.tensordot(v, self.cores[i + 1], axes=(1, 0))", 1, "3000,0"),
    ("c03_rank_not_updated", "C03", TT, "                        self.ranks[i + 1] = u.shape[1]\n                        self.cores[i] = u.reshape(self.ranks[i], self.row_dims[i], self.col_dims[i], self.ranks[i + 1])",
     "                        self.cores[i] = u.reshape(self.ranks[i], self.row_dims[i], self.col_dims[i], u.shape[1])", 1, "3000,0"),
    ("c03_off_by_one_range", "C03", TT, "for i in range(start_index, end_index + 1):", "for i in range(start_index, end_index):", 1, "3000,0"),
    ("c03_right_sweep_stops_early", "C03", TT, "for i in range(start_index, end_index - 1, -1):", "for i in range(start_index, end_index, -1):", 1, "3000,0"),
    ("c03_retry_full_matrices", "C03", TT, "self.ranks[i + 1]), full_matrices=False, overwrite_a=True,\n                                check_finite=False, lapack_driver='gesvd')",
     "self.ranks[i + 1]), full_matrices=True, overwrite_a=True,\n                                check_finite=False, lapack_driver='gesvd')", 1, "0,6000"),
    ("c03_revert_fix_retry", "C03", TT, "self.ranks[i + 1]), full_matrices=False, overwrite_a=False,\n                                check_finite=False)",
     "self.ranks[i + 1]), full_matrices=False, overwrite_a=True,\n                                check_finite=False)", 1, "0,8000"),
    ("c03_retry_right_transposed", "C03", TT, "overwrite_a=True, check_finite=False, lapack_driver='gesvd')\n\n                        # rank reduction\n                        if threshold != 0:\n                            indices = np.where(s / s[0] > threshold)[0]\n                            u = u[:, indices]\n                            s = s[indices]\n                            v = v[indices, :]\n                        if max_ranks[i] != np.inf:",
     "overwrite_a=True, check_finite=False, lapack_driver='gesvd')\n                            s = s[::-1]\n\n                        # rank reduction\n                        if threshold != 0:\n                            indices = np.where(s / s[0] > threshold)[0]\n                            u = u[:, indices]\n                            s = s[indices]\n                            v = v[indices, :]\n                        if max_ranks[i] != np.inf:", 1, "0,8000"),
    # ---- C04
    ("c04_cap_plus_one", "C04", TT, "u = u[:, :np.minimum(u.shape[1], max_ranks[i])]\n                            s = s[:np.minimum(s.shape[0], max_ranks[i])]\n                            v = v[:np.minimum(v.shape[0], max_ranks[i]), :]",
     "u = u[:, :np.minimum(u.shape[1], max_ranks[i] + 1)]\n                            s = s[:np.minimum(s.shape[0], max_ranks[i] + 1)]\n                            v = v[:np.minimum(v.shape[0], max_ranks[i] + 1), :]", 1, "3000,0"),
    ("c04_truncate_on_left_sweep", "C04", TT, "self.ortho_left(threshold=threshold, max_rank=np.inf).ortho_right(threshold=threshold, max_rank=max_rank)",
     "self.ortho_left(threshold=threshold, max_rank=max_rank).ortho_right(threshold=threshold, max_rank=max_rank)", 1, "6000,0"),
    ("c04_keep_smallest_in_init", "C04", TT, "                        u = u[:, :np.minimum(u.shape[1], max_rank)]\n                        s = s[:np.minimum(s.shape[0], max_rank)]\n                        v = v[:np.minimum(v.shape[0], max_rank), :]\n\n                    # define new TT core",
     "                        u = u[:, -np.minimum(u.shape[1], max_rank):]\n                        s = s[-np.minimum(s.shape[0], max_rank):]\n                        v = v[-np.minimum(v.shape[0], max_rank):, :]\n\n                    # define new TT core", 1, "4000,0"),
    ("c04_absolute_cut_in_init", "C04", TT, "                        indices = np.where(s / s[0] > threshold)[0]\n                        u = u[:, indices]\n                        s = s[indices]\n                        v = v[indices, :]\n                    if max_rank != np.inf:",
     "                        indices = np.where(s > threshold * 1000)[0]\n                        u = u[:, indices]\n                        s = s[indices]\n                        v = v[indices, :]\n                    if max_rank != np.inf:", 1, "6000,0"),
    ("c04_truncated_svd_cap", "C04", UT, "u = u[:, :np.minimum(u.shape[1], max_rank)]", "u = u[:, :np.minimum(u.shape[1], max_rank + 1)]", 1, "3000,0"),
    ("c04_truncated_svd_retry_destroyed", "C04", UT, "[u, s, v] = sp.linalg.svd(matrix, full_matrices=False, overwrite_a=False, check_finite=False)",
     "[u, s, v] = sp.linalg.svd(matrix, full_matrices=False, overwrite_a=True, check_finite=False)", 1, "0,6000"),
    # ---- C05
    ("c05_s_instead_of_reciprocal", "C05", TT, "np.tensordot(np.diag(np.reciprocal(s)), cores[index], axes=(1, 0))", "np.tensordot(np.diag(s), cores[index], axes=(1, 0))", 1, "4000,0"),
    ("c05_skip_right_sweep", "C05", TT, "        if ortho_r is True:\n            t = t.ortho_right(end_index=index, threshold=threshold, max_rank=max_rank)",
     "        if ortho_r is True and False:\n            t = t.ortho_right(end_index=index, threshold=threshold, max_rank=max_rank)", 1, "4000,0"),
    ("c05_left_sweep_one_short", "C05", TT, "t = t.ortho_left(end_index=index - 2, threshold=threshold, max_rank=max_rank)",
     "t = t.ortho_left(end_index=index - 3, threshold=threshold, max_rank=max_rank)", 1, "4000,0"),
    ("c05_svd_drops_copy", "C05", TT, "        # copy self\n        if overwrite is False:\n            t = self.copy()\n        else:\n            t = self\n\n        # left-orthonormalize cores 0 to index-2",
     "        # copy self\n        t = self\n\n        # left-orthonormalize cores 0 to index-2", 1, "4000,0"),
    ("c05_v_not_absorbed", "C05", TT, "t.cores[index] = np.tensordot(v, t.cores[index], axes=(1, 0))", "t.cores[index] = np.tensordot(v.conj(), t.cores[index], axes=(1, 0))", 1, "6000,0"),
    # ---- C06
    ("c06_copy_shallow", "C06", TT, "cores = [self.cores[i].copy() for i in range(self.order)]\n\n        # define copied version of self",
     "cores = [self.cores[i] for i in range(self.order)]\n\n        # define copied version of self", 1, "4000,0"),
    ("c06_transpose_no_copy", "C06", TT, "        if overwrite is False:\n            tt_transpose = self.copy()\n        else:\n            tt_transpose = self\n\n        for i in range(self.order):",
     "        tt_transpose = self\n\n        for i in range(self.order):", 1, "4000,0"),
    ("c06_conj_no_copy", "C06", TT, "        if overwrite is False:\n            tt_conj = self.copy()\n        else:\n            tt_conj = self", "        tt_conj = self", 1, "6000,0"),
    ("c06_rank_transpose_no_copy", "C06", TT, "        if overwrite is False:\n            tt_transpose = self.copy()\n        else:\n            tt_transpose = self\n\n        tt_transpose.cores.reverse()",
     "        tt_transpose = self\n\n        tt_transpose.cores.reverse()", 1, "4000,0"),
    ("c06_norm_no_copy", "C06", TT, "        # copy self\n        tt_tensor = self.copy()\n\n        if p == 1:", "        # copy self\n        tt_tensor = self\n\n        if p == 1:", 1, "6000,0"),
    ("c06_mul_no_copy", "C06", TT, "        # copy self\n        tt_prod = self.copy()\n\n        # check if scalar", "        # copy self\n        tt_prod = self\n\n        # check if scalar", 1, "4000,0"),
    ("c06_tt2qtt_no_copy", "C06", TT, "        qtt_cores = []\n        tt_tensor = self.copy()", "        qtt_cores = []\n        tt_tensor = self", 1, "12000,0"),
    ("c06_sle_als_no_copy", "C06", SLE, "    # define solution tensor\n    solution = initial_guess.copy()\n\n    # define stacks\n    stack_left_op   = [None] * operator.order\n    stack_left_rhs  = [None] * operator.order\n    stack_right_op  = [None] * operator.order\n    stack_right_rhs = [None] * operator.order\n\n    # construct right stacks for the left- and right-hand side\n    for i in range(operator.order - 1, -1, -1):",
     "    # define solution tensor\n    solution = initial_guess\n\n    # define stacks\n    stack_left_op   = [None] * operator.order\n    stack_left_rhs  = [None] * operator.order\n    stack_right_op  = [None] * operator.order\n    stack_right_rhs = [None] * operator.order\n\n    # construct right stacks for the left- and right-hand side\n    for i in range(operator.order - 1, -1, -1):", 1, "6000,0"),
    ("c06_evp_no_copy", "C06", EVP, "trains.solution      = initial_guess.copy()", "trains.solution      = initial_guess", 1, "8000,0"),
    ("c06_tdvp1_no_copy", "C06", ODE, "    tmp = solution[0].copy()", "    tmp = solution[0]", 0, "8000,0"),
    ("c06_lie_no_copy", "C06", ODE, "        tmp = solution[i].copy()", "        tmp = solution[i]", 0, "8000,0"),
    ("c06_revert_tensordot", "C06", TT, "tdot.cores = self_cores[:first_idx_self] + [core.copy() for core in other.cores[last_idx_other + 1:]]",
     "tdot.cores = self_cores[:first_idx_self] + other.cores[last_idx_other + 1:]", 1, "20000,0"),
    ("c06_revert_concatenate", "C06", TT, "tt.cores.extend([core.copy() for core in other.cores])", "tt.cores.extend(other.cores)", 1, "20000,0"),
    ("c06_revert_diag", "C06", TT, "        cores = [core.copy() for core in self.cores]\n\n        for i in diag_list:", "        cores = self.cores.copy()\n\n        for i in diag_list:", 1, "20000,0"),
    ("c06_revert_hod", "C06", ODE, "solution_prev = previous_value.copy()", "solution_prev = previous_value", 1, "8000,0"),
    ("c06_revert_evp_share", "C06", EVP, "[core.copy() for core in trains.solution.cores[1:]]))", "trains.solution.cores[1:]))", 1, "30000,0"),
    ("c06_revert_tdmd", "C06", TDMD, "np.reciprocal(dmd_eigenvalues)))[:, :, None, None]", "np.reciprocal(dmd_eigenvalues)))", 1, "3000,0"),
    ("c03_ortho_right_forgets_rank", "C03", TT, "                        self.ranks[i] = v.shape[0]\n                        self.cores[i] = v.reshape(self.ranks[i], self.row_dims[i], self.col_dims[i], self.ranks[i + 1])",
     "                        self.cores[i] = v.reshape(v.shape[0], self.row_dims[i], self.col_dims[i], self.ranks[i + 1])", 1, "3000,0"),
    ("c06_implicit_euler_guess", "C06", ODE, "        # append solution\n        solution.append(tt_tmp.copy())\n\n        # print progress\n        utl.progress('Running implicit Euler method'",
     "        # append solution\n        solution.append(tt_tmp)\n        initial_guess.cores[0] = tt_tmp.cores[0]\n\n        # print progress\n        utl.progress('Running implicit Euler method'", 1, "20000,0"),
    ("c06_trajectory_append_no_copy", "C06", ODE, "        solution.append(tmp.copy())\n\n    return solution", "        solution.append(tmp)\n\n    return solution", 0, "8000,0"),
    ("c06_conj_default_overwrite_true", "C06", TT, "    def conj(self, overwrite: bool=False)", "    def conj(self, overwrite: bool=True)", 1, "4000,0"),
    ("c05_svd_default_overwrite_true", "C05", TT, "            overwrite: bool=False) -> Tuple['TT', 'TT', 'TT']:", "            overwrite: bool=True) -> Tuple['TT', 'TT', 'TT']:", 1, "4000,0"),
    ("c06_tedmd_revert_copy", "C06", "scikit_tt/data_driven/tedmd.py", "        eigentensors_tmp = psi.copy()", "        eigentensors_tmp = psi", 0, "6000,0"),
    # ---- C20
    ("c20_flip_comparison", "C20", QC, "(samples[:,i]>cond_prob[:,0]/np.sum(cond_prob,axis=1))", "(samples[:,i]<cond_prob[:,0]/np.sum(cond_prob,axis=1))", 1, "600,0"),
    ("c20_no_normalisation", "C20", QC, "cond_prob[:,0]/np.sum(cond_prob,axis=1))", "cond_prob[:,0])", 1, "600,0"),
    ("c20_wrong_slice_in_theta", "C20", QC, "probabilities.cores[i][:,sample_matrix[:,i].astype('int'),0,:]", "probabilities.cores[i][:,(1-sample_matrix[:,i]).astype('int'),0,:]", 1, "600,0"),
    ("c20_counts_over_n_plus_1", "C20", QC, "probabilities = counts/number_of_samples", "probabilities = counts/(number_of_samples+1)", 1, "600,0"),
    ("c20_no_identity_contraction", "C20", QC, "@(np.eye(int(np.sqrt(probabilities.ranks[i+1]))).flatten())", "@(np.ones(probabilities.ranks[i+1]))", 1, "1500,0"),
    ("c20_eps_guarded_division", "C20", QC, "cond_prob[:,0]/np.sum(cond_prob,axis=1))", "cond_prob[:,0]/np.maximum(np.sum(cond_prob,axis=1), np.finfo(float).eps))", 1, "6000,0"),
    ("c20_mutates_state", "C20", QC, "    # squeeze probability tensor", "    quantum_state.cores[0] = quantum_state.cores[0] * 1.0000001\n    # squeeze probability tensor", 1, "600,0"),
]


def _apply(root, rel, old, new, count):
    path = os.path.join(root, rel)
    with open(path) as f:
        s = f.read()
    n = s.count(old)
    if n == 0 or (count and n != count):
        return "anchor occurs %d times (wanted %s)" % (n, count or ">=1")
    s = s.replace(old, new)
    with open(path, "w") as f:
        f.write(s)
    return None


def _one_mutant(mut):
    name, prop, rel, old, new, count, runs = mut
    scratch = tempfile.mkdtemp(prefix="simtt_mut_")
    t0 = time.time()
    try:
        shutil.copytree(os.path.join(env.REPO, "scikit_tt"), os.path.join(scratch, "scikit_tt"))
        problem = _apply(scratch, rel, old, new, count)
        if problem:
            return name, prop, "STALE", problem, time.time() - t0
        e = dict(os.environ)
        e["SIMTT_REPO"] = scratch
        e["SIMTT_OUT"] = os.path.join(scratch, "out")
        e["PYTHONHASHSEED"] = "0"
        p = subprocess.run([sys.executable, "-m", "simtt.cli", prop, "--runs", runs, "--workers", "4", "--wall", "150"],
                           cwd=env.VERIF, env=e, capture_output=True, text=True, timeout=900)
        viol = [l for l in p.stdout.splitlines() if l.startswith("VIOLATION property=%s" % prop)]
        sigs = [l.strip().split(" ")[0] for l in p.stdout.splitlines() if l.strip().startswith("signature=")]
        if p.returncode == 1 and viol:
            return name, prop, "DETECTED", ";".join(sigs[:3]), time.time() - t0
        return name, prop, "MISSED", "rc=%d %s" % (p.returncode, (p.stdout.splitlines() or [""])[-1][:200]), time.time() - t0
    finally:
        shutil.rmtree(scratch, ignore_errors=True)


def sensitivity(argv):
    only = [a for a in argv if not a.startswith("--")]
    muts = [m for m in MUTANTS if not only or any(o in m[0] for o in only)]
    t0 = time.time()
    res = []
    with ProcessPoolExecutor(max_workers=4, mp_context=multiprocessing.get_context("fork")) as ex:
        for r in ex.map(_one_mutant, muts):
            res.append(r)
            print("MUTANT %-34s %s %-8s %5.1fs  %s" % (r[0], r[1], r[2], r[4], r[3]))
            sys.stdout.flush()
    missed = [r for r in res if r[2] != "DETECTED"]
    print("SENSITIVITY %d/%d detected in %.0f s%s" % (len(res) - len(missed), len(res), time.time() - t0,
                                                      "" if not missed else "; NOT detected: " + ", ".join(r[0] for r in missed)))
    out = os.path.join(env.VERIF, "selftest")
    os.makedirs(out, exist_ok=True)
    with open(os.path.join(out, "sensitivity_last.json"), "w") as f:
        json.dump({"repo_head": env.repo_head(), "results": [{"mutant": r[0], "property": r[1], "outcome": r[2], "detail": r[3],
                                                              "seconds": round(r[4], 1)} for r in res]}, f, indent=1)
    return 0 if not missed else 2
