#!/venv/bin/python
"""Automatic first-order mutants of the functions the claimed properties are anchored in, and which check kills them.

For every target function one AST node is changed at a time (comparison operators, +/-, integer constants +-1,
True/False, statement deletion); the mutated module is written to a scratch copy of the package (outside /repo and /verif,
removed afterwards) and the listed checks are run against it (SIMTT_REPO / SIMTT_OUT) with a small budget until one of
them reports a VIOLATION.  Mutants that do not import are discarded.  Survivors are listed for manual inspection
(equivalent mutants are expected: e.g. `>` vs `>=` on a null set).

usage: tools/automutate.py [--jobs 4] [--max N] [--only substr]
"""
import ast, os, sys, json, copy, time, shutil, tempfile, subprocess
from concurrent.futures import ThreadPoolExecutor

VERIF = os.path.dirname(os.path.dirname(os.path.abspath(__file__)))
REPO = "/repo"

# (file, [function names], [property checks to try, in order], runs)
TARGETS = [
    ("scikit_tt/tensor_train.py", ["ortho_left", "ortho_right", "ortho"], ["C03", "C04", "C05"], "6000,6000"),
    ("scikit_tt/tensor_train.py", ["svd", "pinv"], ["C05"], "8000,4000"),
    ("scikit_tt/tensor_train.py", ["__init__"], ["C04", "C03"], "8000,2000"),
    ("scikit_tt/utils.py", ["truncated_svd"], ["C04"], "8000,4000"),
    ("scikit_tt/quantum_computation.py", ["sampling"], ["C20"], "1500,0"),
    ("scikit_tt/tensor_train.py", ["diag", "squeeze"], ["C20"], "1500,0"),
]

COPY_ONLY = False

CMP = {ast.Gt: [ast.GtE, ast.Lt], ast.GtE: [ast.Gt], ast.Lt: [ast.LtE, ast.Gt], ast.LtE: [ast.Lt],
       ast.Eq: [ast.NotEq], ast.NotEq: [ast.Eq], ast.Is: [ast.IsNot], ast.IsNot: [ast.Is]}
BIN = {ast.Add: [ast.Sub], ast.Sub: [ast.Add], ast.Mult: [ast.Add]}


def candidates(fn):
    """Yield (description, mutate(node_copy_root) -> None) for each single-node mutation inside function fn."""
    nodes = [n for n in ast.walk(fn)]
    for idx, n in enumerate(nodes):
        if COPY_ONLY:
            if isinstance(n, ast.Call) and isinstance(n.func, ast.Attribute) and n.func.attr == "copy" and not n.args and not n.keywords:
                yield idx, "drop .copy() @%d" % n.lineno, ("dropcopy", None)
            continue
        if isinstance(n, ast.Compare) and len(n.ops) == 1 and type(n.ops[0]) in CMP:
            for new in CMP[type(n.ops[0])]:
                yield idx, "cmp %s->%s @%d" % (type(n.ops[0]).__name__, new.__name__, n.lineno), ("cmp", new)
        elif isinstance(n, ast.BinOp) and type(n.op) in BIN:
            for new in BIN[type(n.op)]:
                yield idx, "bin %s->%s @%d" % (type(n.op).__name__, new.__name__, n.lineno), ("bin", new)
        elif isinstance(n, ast.Constant) and isinstance(n.value, bool):
            yield idx, "bool %s->%s @%d" % (n.value, not n.value, n.lineno), ("const", not n.value)
        elif isinstance(n, ast.Constant) and isinstance(n.value, int) and not isinstance(n.value, bool) and 0 <= n.value <= 4:
            for new in (n.value + 1, n.value - 1):
                yield idx, "int %d->%d @%d" % (n.value, new, n.lineno), ("const", new)
        elif isinstance(n, (ast.Assign, ast.AugAssign)) or (isinstance(n, ast.Expr) and isinstance(n.value, ast.Call)):
            if not COPY_ONLY:
                yield idx, "delete stmt @%d" % n.lineno, ("delete", None)
        if isinstance(n, ast.Call) and isinstance(n.func, ast.Attribute) and n.func.attr == "copy" and not n.args and not n.keywords:
            yield idx, "drop .copy() @%d" % n.lineno, ("dropcopy", None)


def apply(fn_copy, idx, action):
    nodes = [n for n in ast.walk(fn_copy)]
    n = nodes[idx]
    kind, new = action
    if kind == "dropcopy":
        # X.copy() -> X : replace the Call node by its receiver everywhere it is referenced
        for p in ast.walk(fn_copy):
            for field, val in ast.iter_fields(p):
                if val is n:
                    setattr(p, field, n.func.value)
                    return True
                if isinstance(val, list) and n in val:
                    val[val.index(n)] = n.func.value
                    return True
        return False
    if kind == "cmp":
        n.ops = [new()]
    elif kind == "bin":
        n.op = new()
    elif kind == "const":
        n.value = new
    elif kind == "delete":
        # replace the statement by `pass` in its parent body
        for p in ast.walk(fn_copy):
            for field in ("body", "orelse", "finalbody", "handlers"):
                body = getattr(p, field, None)
                if isinstance(body, list) and n in body:
                    body[body.index(n)] = ast.copy_location(ast.Pass(), n)
                    return True
        return False
    return True


def mutants_for(relfile, funcs):
    src = open(os.path.join(REPO, relfile)).read()
    tree = ast.parse(src)
    out = []
    for node in ast.walk(tree):
        if isinstance(node, ast.FunctionDef) and (funcs is None or node.name in funcs):
            # skip docstring-only differences; enumerate candidates
            for idx, desc, action in candidates(node):
                out.append((node.name, node.lineno, idx, desc, action))
    return src, tree, out


def build(relfile, tree, fname, flineno, idx, action):
    t = copy.deepcopy(tree)
    for node in ast.walk(t):
        if isinstance(node, ast.FunctionDef) and node.name == fname and node.lineno == flineno:
            if not apply(node, idx, action):
                return None
            break
    ast.fix_missing_locations(t)
    try:
        return ast.unparse(t)
    except Exception:
        return None


def run_one(job):
    relfile, checks, runs, fname, desc, code = job
    scratch = tempfile.mkdtemp(prefix="simtt_auto_")
    t0 = time.time()
    try:
        shutil.copytree(os.path.join(REPO, "scikit_tt"), os.path.join(scratch, "scikit_tt"))
        with open(os.path.join(scratch, relfile), "w") as f:
            f.write(code)
        e = dict(os.environ, SIMTT_REPO=scratch, SIMTT_OUT=os.path.join(scratch, "out"), PYTHONHASHSEED="0")
        imp = subprocess.run(["/venv/bin/python", "-c", "import sys; sys.path.insert(0, %r); sys.modules.setdefault('matplotlib', __import__('types').ModuleType('matplotlib')); import types; p=types.ModuleType('matplotlib.pyplot'); sys.modules['matplotlib.pyplot']=p; import scikit_tt.tensor_train, scikit_tt.utils, scikit_tt.quantum_computation" % scratch],
                             capture_output=True, text=True, env=e)
        if imp.returncode != 0:
            return (relfile, fname, desc, "INVALID", "", time.time() - t0)
        for prop in checks:
            c = subprocess.run(["/venv/bin/python", "-W", "ignore::SyntaxWarning", "-m", "simtt.cli", prop, "--runs", runs, "--workers", "4",
                                "--wall", "120"], cwd=VERIF, env=e, capture_output=True, text=True, timeout=1200)
            if c.returncode == 1 and ("VIOLATION property=%s" % prop) in c.stdout:
                sig = [l.strip().split(" ")[0] for l in c.stdout.splitlines() if l.strip().startswith("signature=")][:1]
                return (relfile, fname, desc, "KILLED", prop + " " + ";".join(sig), time.time() - t0)
            if c.returncode == 2:
                return (relfile, fname, desc, "HARNESS", prop + " " + (c.stdout.splitlines() or [""])[-1][:200], time.time() - t0)
        return (relfile, fname, desc, "SURVIVED", "", time.time() - t0)
    finally:
        shutil.rmtree(scratch, ignore_errors=True)


def main():
    args = sys.argv[1:]
    jobs_n, mx, only = 4, None, None
    survivors, scale = None, 1
    global COPY_ONLY, TARGETS
    if "--copies" in args:
        # the mutation class C06 is about: every `.copy()` in the library dropped, one at a time, judged by the C06 check
        COPY_ONLY = True
        allf = None
        TARGETS = [(f, allf, ["C06"], "5000,2500") for f in (
            "scikit_tt/tensor_train.py", "scikit_tt/solvers/sle.py", "scikit_tt/solvers/evp.py", "scikit_tt/solvers/ode.py",
            "scikit_tt/data_driven/tdmd.py", "scikit_tt/data_driven/regression.py", "scikit_tt/data_driven/tedmd.py",
            "scikit_tt/models.py", "scikit_tt/slim.py")]
    for i, a in enumerate(args):
        if a == "--survivors-of":       # re-run only the survivors of an earlier run, with a larger budget
            prev = json.load(open(args[i + 1]))
            survivors = {(r["file"], r["function"], r["mutation"]) for r in prev["results"] if r["outcome"] in ("SURVIVED", "HARNESS")}
        if a == "--scale":
            scale = int(args[i + 1])
        if a == "--jobs":
            jobs_n = int(args[i + 1])
        if a == "--max":
            mx = int(args[i + 1])
        if a == "--only":
            only = args[i + 1]
    jobs = []
    for relfile, funcs, checks, runs in TARGETS:
        src, tree, muts = mutants_for(relfile, funcs)
        seen = set()
        for fname, flineno, idx, desc, action in muts:
            if only and only not in fname and only not in desc:
                continue
            if survivors is not None and (relfile, fname, desc) not in survivors:
                continue
            code = build(relfile, tree, fname, flineno, idx, action)
            if code is None or code in seen:
                continue
            seen.add(code)
            jobs.append((relfile, checks, ",".join(str(int(x) * scale) for x in runs.split(",")), fname, desc, code))
    if mx:
        import random
        random.Random(0).shuffle(jobs)
        jobs = jobs[:mx]
    print("mutants: %d" % len(jobs))
    res = []
    t0 = time.time()
    with ThreadPoolExecutor(jobs_n) as ex:
        for r in ex.map(run_one, jobs):
            res.append(r)
            print("%-9s %-28s %-12s %-34s %5.1fs %s" % (r[3], r[0].split("/")[-1], r[1], r[2], r[5], r[4]))
            sys.stdout.flush()
    from collections import Counter
    c = Counter(r[3] for r in res)
    print("AUTOMUTATE %s in %.0f s" % (dict(c), time.time() - t0))
    os.makedirs(os.path.join(VERIF, "selftest"), exist_ok=True)
    json.dump({"repo_head": subprocess.run(["git", "-C", REPO, "rev-parse", "--short", "HEAD"], capture_output=True, text=True).stdout.strip(),
               "counts": dict(c), "results": [{"file": r[0], "function": r[1], "mutation": r[2], "outcome": r[3], "by": r[4]} for r in res]},
              open(os.path.join(VERIF, "selftest", ("automutate_copies.json" if COPY_ONLY else "automutate_last.json") if survivors is None
                                else "automutate_survivors_rerun.json"), "w"), indent=1)


if __name__ == "__main__":
    main()
