#!/venv/bin/python
"""Confirm, for every seeded change, that the patched tree still passes the repository's baseline test suite.

For each /verif/seeded/<id>: git worktree of /repo HEAD under a fresh temp dir (outside /repo and /verif), apply
patch.diff, run the BASELINE.json test command there (PYTHONPATH=<worktree>), compare the set of passing tests with
BASELINE stable_pass, record the outcome in meta.json["confirmed"], remove the worktree.
usage: tools/seeded_confirm.py [-j N] [id-substr ...]
"""
import os, sys, json, subprocess, tempfile, shutil, time
import xml.etree.ElementTree as ET
from concurrent.futures import ThreadPoolExecutor

VERIF = os.path.dirname(os.path.dirname(os.path.abspath(__file__)))
BASE = json.load(open("/root/.vp/BASELINE.json"))
WANT = set(BASE["stable_pass"])


def one(sid):
    d = os.path.join(VERIF, "seeded", sid)
    meta = json.load(open(os.path.join(d, "meta.json")))
    tmp = tempfile.mkdtemp(prefix="simtt_confirm_")
    wt = os.path.join(tmp, "wt")
    t0 = time.time()
    try:
        subprocess.run(["git", "-C", "/repo", "worktree", "add", "--detach", wt, "HEAD", "-q"], check=True, capture_output=True)
        p = subprocess.run(["git", "-C", wt, "apply", os.path.join(d, "patch.diff")], capture_output=True, text=True)
        if p.returncode != 0:
            p = subprocess.run(["patch", "-p1", "-s", "-d", wt, "-i", os.path.join(d, "patch.diff")], capture_output=True, text=True)
        if p.returncode != 0:
            res = {"applies": False, "detail": (p.stdout + p.stderr)[-300:]}
        else:
            junit = os.path.join(tmp, "junit.xml")
            env = dict(os.environ, PYTHONPATH=wt, OPENBLAS_NUM_THREADS="1", PYTHONDONTWRITEBYTECODE="1")
            c = subprocess.run(["nice", "-n", "10", "/venv/bin/python", "-m", "pytest", "-ra", "-q", "-p", "no:cacheprovider", "--timeout=900",
                                "--continue-on-collection-errors", "--junitxml=" + junit], cwd=wt, env=env, capture_output=True, text=True)
            ok = set()
            try:
                for tc in ET.parse(junit).getroot().iter("testcase"):
                    if not any(ch.tag in ("failure", "error", "skipped") for ch in tc):
                        ok.add(tc.get("classname") + "::" + tc.get("name"))
            except Exception as e:
                ok = set()
            missing = sorted(WANT - ok)
            res = {"applies": True, "baseline_tests_passing": len(WANT & ok), "baseline_tests_total": len(WANT),
                   "baseline_tests_failing_with_patch": missing[:10], "suite_cmd": BASE["cmd"].replace("<file>", "junit.xml"),
                   "pytest_tail": c.stdout.strip().splitlines()[-1:] if c.stdout else []}
        res["seconds"] = round(time.time() - t0)
        res["repo_head"] = subprocess.run(["git", "-C", "/repo", "rev-parse", "--short", "HEAD"], capture_output=True, text=True).stdout.strip()
        meta["confirmed"] = res
        json.dump(meta, open(os.path.join(d, "meta.json"), "w"), indent=1)
        print("%-24s applies=%s baseline=%s/%s missing=%s (%ds)" % (sid, res.get("applies"), res.get("baseline_tests_passing"),
                                                                   res.get("baseline_tests_total"), res.get("baseline_tests_failing_with_patch"), res["seconds"]))
        sys.stdout.flush()
    finally:
        subprocess.run(["git", "-C", "/repo", "worktree", "remove", "--force", wt], capture_output=True)
        shutil.rmtree(tmp, ignore_errors=True)


def main():
    args = sys.argv[1:]
    j = 6
    if args and args[0] == "-j":
        j = int(args[1]); args = args[2:]
    ids = sorted(x for x in os.listdir(os.path.join(VERIF, "seeded")) if os.path.isdir(os.path.join(VERIF, "seeded", x)))
    if args:
        ids = [i for i in ids if any(a in i for a in args)]
    with ThreadPoolExecutor(j) as ex:
        list(ex.map(one, ids))


if __name__ == "__main__":
    main()
