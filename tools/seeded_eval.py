#!/venv/bin/python
"""Evaluate the registered checks against the independently written breaking changes under /verif/seeded/<id>/.

For each seeded change: copy /repo's package to a scratch directory (outside /repo and /verif), apply patch.diff there,
confirm the demonstration fails on the patched copy and passes on /repo, run the property's check against the patched
copy (SIMTT_REPO / SIMTT_OUT) and record whether it printed a VIOLATION.  /repo itself is never modified.
usage: tools/seeded_eval.py [id ...] [--runs N,M] [--wall S]
"""
import os, sys, json, shutil, subprocess, tempfile, time

VERIF = os.path.dirname(os.path.dirname(os.path.abspath(__file__)))
REPO = os.environ.get("SIMTT_REPO_BASE", "/repo")


def run(cmd, **kw):
    return subprocess.run(cmd, capture_output=True, text=True, **kw)


def main():
    args = [a for a in sys.argv[1:] if not a.startswith("--")]
    opts = dict(a[2:].split("=") for a in sys.argv[1:] if a.startswith("--") and "=" in a)
    ids = sorted(d for d in os.listdir(os.path.join(VERIF, "seeded")) if os.path.isdir(os.path.join(VERIF, "seeded", d)))
    if args:
        ids = [i for i in ids if any(a in i for a in args)]
    results = []
    for sid in ids:
        d = os.path.join(VERIF, "seeded", sid)
        meta = json.load(open(os.path.join(d, "meta.json")))
        prop = meta["property"]
        scratch = tempfile.mkdtemp(prefix="simtt_seeded_")
        t0 = time.time()
        try:
            shutil.copytree(os.path.join(REPO, "scikit_tt"), os.path.join(scratch, "scikit_tt"))
            p = run(["patch", "-p1", "-s", "-d", scratch, "-i", os.path.join(d, "patch.diff")])
            if p.returncode != 0:
                results.append({"id": sid, "property": prop, "outcome": "PATCH-DOES-NOT-APPLY", "detail": (p.stdout + p.stderr)[-300:]})
                print("%-28s %s PATCH-DOES-NOT-APPLY" % (sid, prop))
                continue
            demo = os.path.join(d, meta.get("demo", "demo.py"))
            env_p = dict(os.environ, PYTHONPATH=scratch, OPENBLAS_NUM_THREADS="1")
            env_c = dict(os.environ, PYTHONPATH=REPO, OPENBLAS_NUM_THREADS="1")
            dp = run(["/venv/bin/python", demo], env=env_p, cwd=scratch, timeout=900)
            dc = run(["/venv/bin/python", demo], env=env_c, cwd=scratch, timeout=900)
            e = dict(os.environ, SIMTT_REPO=scratch, SIMTT_OUT=os.path.join(scratch, "out"), PYTHONHASHSEED="0")
            cmd = ["/venv/bin/python", "-W", "ignore::SyntaxWarning", "-m", "simtt.cli", prop, "--tier", opts.get("tier", "quick")]
            if "runs" in opts:
                cmd += ["--runs", opts["runs"]]
            if "wall" in opts:
                cmd += ["--wall", opts["wall"]]
            c = run(cmd, env=e, cwd=VERIF, timeout=3600)
            sigs = [l.strip().split(" ")[0].replace("signature=", "") for l in c.stdout.splitlines() if l.strip().startswith("signature=")]
            sigs += ["regression:" + l.strip().split(" ")[1] for l in c.stdout.splitlines() if l.strip().startswith("regression: ")]
            viol = any(l.startswith("VIOLATION property=%s" % prop) for l in c.stdout.splitlines())
            outcome = "DETECTED" if (c.returncode == 1 and viol) else ("HARNESS-ERROR" if c.returncode == 2 else "MISSED")
            r = {"id": sid, "property": prop, "outcome": outcome, "signatures": sigs[:6], "check_exit": c.returncode,
                 "demo_fails_with_patch": dp.returncode != 0, "demo_passes_without": dc.returncode == 0,
                 "seconds": round(time.time() - t0, 1), "summary": [l for l in c.stdout.splitlines() if l.startswith("SUMMARY")][-1:]}
            results.append(r)
            print("%-28s %s %-9s demo(patched fails=%s, clean passes=%s) %5.0fs %s" % (
                sid, prop, outcome, r["demo_fails_with_patch"], r["demo_passes_without"], r["seconds"], ";".join(sigs[:3])))
            sys.stdout.flush()
        finally:
            shutil.rmtree(scratch, ignore_errors=True)
    out = os.path.join(VERIF, "seeded", "RESULTS.json")
    old = []
    if os.path.exists(out) and args:
        old = [r for r in json.load(open(out))["results"] if r["id"] not in {x["id"] for x in results}]
    json.dump({"repo_head": run(["git", "-C", REPO, "rev-parse", "--short", "HEAD"]).stdout.strip(),
               "results": sorted(old + results, key=lambda r: r["id"])}, open(out, "w"), indent=1)
    miss = [r["id"] for r in results if r["outcome"] != "DETECTED"]
    print("SEEDED %d/%d detected%s" % (len(results) - len(miss), len(results), "" if not miss else "; not detected: " + ", ".join(miss)))


if __name__ == "__main__":
    main()
