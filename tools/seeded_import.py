#!/venv/bin/python
"""Import sub-agent output (/tmp/seeded_out/<agent>/patch<i>.diff, demo<i>.py, notes<i>.md) into /verif/seeded/<id>/."""
import os, sys, json, shutil, re
VERIF = os.path.dirname(os.path.dirname(os.path.abspath(__file__)))
agent, prop = sys.argv[1], sys.argv[2]
# prop may be one id for all patches, or a mapping like "1:C05,2:C05,3:C20,4:C20"
PROPMAP = dict(x.split(":") for x in prop.split(",")) if ":" in prop else None
src = os.path.join("/tmp/seeded_out", agent)
for f in sorted(os.listdir(src)):
    m = re.match(r"patch(\d+)\.diff$", f)
    if not m:
        continue
    i = m.group(1)
    prop = PROPMAP[i] if PROPMAP else sys.argv[2]
    sid = "%s_%s_%s" % (prop, agent, i)
    d = os.path.join(VERIF, "seeded", sid)
    os.makedirs(d, exist_ok=True)
    shutil.copy(os.path.join(src, f), os.path.join(d, "patch.diff"))
    shutil.copy(os.path.join(src, "demo%s.py" % i), os.path.join(d, "demo.py"))
    notes = ""
    np_ = os.path.join(src, "notes%s.md" % i)
    if os.path.exists(np_):
        shutil.copy(np_, os.path.join(d, "notes.md"))
        notes = open(np_).read()
    meta = {"id": sid, "property": prop, "origin": "fresh sub-agent '%s' given only the property text and its own scratch worktree of /repo" % agent,
            "demo": "demo.py", "needs_to_manifest": notes.strip()[:1500], "confirmed": None}
    json.dump(meta, open(os.path.join(d, "meta.json"), "w"), indent=1)
    print("imported", sid)
