#!/venv/bin/python
"""Print the markdown table of DESIGN.md section 11.5 from seeded/RESULTS.json and the seeded/<id>/ directories."""
import os, json, re
VERIF = os.path.dirname(os.path.dirname(os.path.abspath(__file__)))
res = {r["id"]: r for r in json.load(open(os.path.join(VERIF, "seeded", "RESULTS.json")))["results"]}
print("| id | property | what the change is (file) | what it needs to manifest | check outcome | signatures reported |")
print("|---|---|---|---|---|---|")
for sid in sorted(os.listdir(os.path.join(VERIF, "seeded"))):
    d = os.path.join(VERIF, "seeded", sid)
    if not os.path.isdir(d):
        continue
    meta = json.load(open(os.path.join(d, "meta.json")))
    patch = open(os.path.join(d, "patch.diff")).read()
    files = sorted(set(re.findall(r"^\+\+\+ b/(\S+)", patch, re.M)))
    r = res.get(sid, {})
    what = meta.get("summary", "")
    needs = meta.get("needs", "")
    print("| %s | %s | %s (%s) | %s | %s | %s |" % (sid, meta["property"], what, ", ".join(f.replace("scikit_tt/", "") for f in files), needs,
                                                r.get("outcome", "not evaluated"), "; ".join("`%s`" % s for s in r.get("signatures", [])[:3])))
